#!/bin/sh
# Builds the offline overlay interpreter used by every check: /verif/.venv (python 3.12 = the repo's interpreter,
# plus z3-solver / cvc5 / hypothesis / jsonschema from the local wheelhouse, plus /venv's site-packages so that
# `import glom` and its third-party deps (boltons, face, attrs, yaml) resolve).  No network is used.
set -e
cd "$(dirname "$0")"
if [ -x .venv/bin/python ] && .venv/bin/python -c "import z3, cvc5, jsonschema, boltons, face" 2>/dev/null; then
  echo "setup: .venv already usable"; exit 0
fi
rm -rf .venv
/venv/bin/python -m venv .venv
PIP_NO_INDEX=1 .venv/bin/python -m pip install -q --no-index --find-links /opt/veriftools/wheels \
    z3-solver cvc5 hypothesis jsonschema icontract deal crosshair-tool
SP=$(.venv/bin/python -c "import sysconfig; print(sysconfig.get_paths()['purelib'])")
echo "import site; site.addsitedir('/venv/lib/python3.12/site-packages')" > "$SP/_repo_deps.pth"
.venv/bin/python -c "import z3, cvc5, jsonschema, boltons, face; print('setup: ok, z3', z3.get_version_string())"
