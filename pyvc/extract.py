"""Mechanical extraction of the code under verification.

Every run re-reads /repo/glom/*.py (or REPO_ROOT), parses it with `ast` and indexes
functions / classes by qualified name.  VCs are generated from these AST nodes directly; no
copy of a function body exists under /verif.  What extraction drops: docstrings, comments,
decorators other than @classmethod/@staticmethod (recorded), type annotations.
"""
import ast, hashlib, os

REPO_ROOT = os.environ.get('GLOM_REPO', '/repo')
MODULES = ['core', 'matching', 'mutation', 'reduction', 'grouping', 'streaming', 'cli']


class FuncInfo:
    def __init__(self, module, qual, node, cls=None):
        self.module, self.qual, self.node, self.cls = module, qual, node, cls
        self.kind = 'function'
        for d in node.decorator_list:
            if isinstance(d, ast.Name) and d.id in ('classmethod', 'staticmethod'):
                self.kind = d.id
        if cls is not None and self.kind == 'function':
            self.kind = 'method'

    @property
    def name(self):
        return '%s.%s' % (self.module, self.qual)

    def body(self):
        b = self.node.body
        if b and isinstance(b[0], ast.Expr) and isinstance(b[0].value, ast.Constant) and isinstance(b[0].value.value, str):
            return b[1:]
        return b

    def sha(self):
        return hashlib.sha256(ast.dump(ast.Module(body=self.body(), type_ignores=[])).encode()).hexdigest()[:16]

    def span(self):
        return (self.node.lineno, self.node.end_lineno)


class ClassInfo:
    def __init__(self, module, name, node):
        self.module, self.cname, self.node = module, name, node
        self.bases = [ast.unparse(b) for b in node.bases]
        self.methods = {}
        self.class_attrs = {}
        self.nested = {}
        self.slots = None

    @property
    def name(self):
        return '%s.%s' % (self.module, self.cname)


class Repo:
    """Parsed view of the working tree.  `overrides` maps module name -> source text and is used only
    by the mutant canaries (in-memory edits; nothing is written anywhere)."""

    def __init__(self, root=None, overrides=None):
        self.root = root or REPO_ROOT
        self.text, self.tree, self.functions, self.classes, self.globals_ = {}, {}, {}, {}, {}
        self.module_assigns = {}
        for m in MODULES:
            path = os.path.join(self.root, 'glom', m + '.py')
            src = (overrides or {}).get(m)
            if src is None:
                with open(path) as f:
                    src = f.read()
            self.text[m] = src
            tree = ast.parse(src, filename=path)
            self.tree[m] = tree
            self._index(m, tree)

    def _index(self, m, tree):
        self.module_assigns[m] = {}
        for node in tree.body:
            if isinstance(node, ast.FunctionDef):
                self.functions['%s.%s' % (m, node.name)] = FuncInfo(m, node.name, node)
            elif isinstance(node, ast.ClassDef):
                ci = ClassInfo(m, node.name, node)
                self.classes[ci.name] = ci
                for sub in node.body:
                    if isinstance(sub, ast.FunctionDef):
                        fi = FuncInfo(m, '%s.%s' % (node.name, sub.name), sub, cls=ci)
                        ci.methods[sub.name] = fi
                        self.functions[fi.name] = fi
                    elif isinstance(sub, ast.ClassDef):
                        nci = ClassInfo(m, '%s.%s' % (node.name, sub.name), sub)
                        self.classes[nci.name] = nci
                        ci.nested[sub.name] = nci
                    elif isinstance(sub, ast.Assign) and len(sub.targets) == 1 and isinstance(sub.targets[0], ast.Name):
                        ci.class_attrs[sub.targets[0].id] = sub.value
                        if sub.targets[0].id == '__slots__':
                            try:
                                v = ast.literal_eval(sub.value)
                                ci.slots = (v,) if isinstance(v, str) else tuple(v)
                            except Exception:
                                ci.slots = ()
            elif isinstance(node, ast.Assign) and len(node.targets) == 1 and isinstance(node.targets[0], ast.Name):
                self.module_assigns[m][node.targets[0].id] = node.value

    def func(self, name):
        if name not in self.functions:
            raise KeyError('contract has no subject: %s' % name)
        return self.functions[name]

    def cls(self, name):
        return self.classes[name]

    def find_class(self, module, cname):
        return self.classes.get('%s.%s' % (module, cname))

    def mro(self, ci):
        """linearised ancestors among glom classes (single inheritance chains are all glom uses for dispatch)"""
        out, seen = [], set()
        def walk(c):
            if c.name in seen:
                return
            seen.add(c.name)
            out.append(c)
            for b in c.bases:
                bc = self.find_class(c.module, b) or next((x for x in self.classes.values() if x.cname == b), None)
                if bc is not None:
                    walk(bc)
        walk(ci)
        return out

    def lookup_method(self, ci, name):
        for c in self.mro(ci):
            if name in c.methods:
                return c.methods[name]
        return None

    def nested_func(self, fi, name):
        for n in ast.walk(fi.node):
            if isinstance(n, ast.FunctionDef) and n.name == name and n is not fi.node:
                return n
        raise KeyError(name)
