"""Discharge of proof obligations: z3 (deterministic rlimit) first, cvc5 for what z3 leaves unknown.
One query per obligation:  base facts (restricted to the class / singleton constants the query mentions) AND pc AND NOT goal."""
import os, subprocess, tempfile, time
from concurrent.futures import ProcessPoolExecutor
import z3

RLIMIT = int(os.environ.get('PYVC_RLIMIT', '30000000'))
WALL_MS = int(os.environ.get('PYVC_WALL_MS', '120000'))


def relevant_base(ex, formulas):
    """ground class-hierarchy / singleton facts over the constants that occur in the formulas"""
    names = set()
    seen = set()
    stack = list(formulas)
    while stack:
        t = stack.pop()
        i = t.get_id()
        if i in seen:
            continue
        seen.add(i)
        if z3.is_const(t) and t.decl().kind() == z3.Z3_OP_UNINTERPRETED:
            names.add(t.decl().name())
        stack.extend(t.children())
    from . import z as Z
    facts = ex.facts
    cls = [n for n in facts.class_names if ('CLS_' + n.replace('.', '_')) in names]
    for must in ('object', 'BaseException', 'Exception'):
        if must not in cls:
            cls.append(must)
    sing = [n for n in facts.singletons if n in names]
    out = []
    cc = [ex.cls_const(n) for n in cls]
    for a in cls:
        for b in cls:
            f = Z.subclass(ex.cls_const(a), ex.cls_const(b))
            out.append(f if facts.issub(a, b) else z3.Not(f))
    sc = [Z.const(n) for n in sing] + [Z.NONE, Z.TRUE, Z.FALSE]
    out.append(z3.Distinct(*(sc + cc)))
    for n in sing:
        c = Z.const(n)
        out += [Z.truthy_(c) == facts.singleton_truthy[n], z3.Not(Z.is_int(c)), z3.Not(Z.is_str(c)), z3.Not(Z.is_tuple(c)),
                Z.klass(c) == ex.cls_const(facts.singleton_class[n]), Z.callable_(c) == facts.singleton_callable[n]]
    out += [Z.klass(Z.NONE) == ex.cls_const('NoneType'), z3.Not(Z.is_int(Z.NONE)), z3.Not(Z.is_str(Z.NONE)), z3.Not(Z.is_tuple(Z.NONE)),
            z3.Not(Z.truthy_(Z.NONE)), z3.Not(Z.callable_(Z.NONE))]
    for c in cc:
        out += [Z.callable_(c), Z.truthy_(c), z3.Not(Z.is_int(c)), z3.Not(Z.is_str(c)), z3.Not(Z.is_tuple(c))]
    out += [Z.truthy_(Z.TRUE), z3.Not(Z.truthy_(Z.FALSE))]
    return out


def group(obligations):
    """obligations generated on several paths for the same contract clause are one named obligation (names come from
    clauses, not from path numbering): it holds iff no path has pc AND NOT goal satisfiable."""
    out, index = [], {}
    for ob in obligations:
        if ob['name'] not in index:
            g = dict(ob)
            g['parts'] = []
            index[ob['name']] = g
            out.append(g)
        index[ob['name']]['parts'].append((ob['pc'], ob['goal']))
    return out


def to_smt2(ex, ob, extra_axioms=()):
    s = z3.Solver()
    parts = ob.get('parts') or [(ob['pc'], ob['goal'])]
    bad = [z3.And(*(list(pc) + [z3.Not(goal)])) for pc, goal in parts]
    fs = [z3.Or(*bad) if len(bad) > 1 else bad[0]] + list(extra_axioms)
    s.add(*relevant_base(ex, fs))
    s.add(*fs)
    return s.to_smt2()


def _solve(job):
    name, smt, rlimit, want_model = job
    t0 = time.time()
    try:
        s = z3.Solver()
        s.set('rlimit', rlimit)
        s.set('timeout', WALL_MS)
        s.from_string(smt)
        r = s.check()
        res = {'name': name, 'solver': 'z3', 'time': time.time() - t0}
        if r == z3.unsat:
            res['status'] = 'proved'
        elif r == z3.sat:
            res['status'] = 'refuted'
            if want_model:
                m = s.model()
                res['model'] = {str(d): str(m[d])[:300] for d in m.decls()[:400] if d.arity() == 0}
        else:
            res['status'] = 'unknown'
            res['reason'] = s.reason_unknown()
        return res
    except Exception as e:     # solver crash is never a verdict
        return {'name': name, 'solver': 'z3', 'status': 'error', 'reason': repr(e)[:300], 'time': time.time() - t0}


def _race(job):
    """run z3 (rlimit) and cvc5 on the same query as separate processes; the first definitive verdict wins.
    (sat/unsat cannot disagree between sound solvers; racing only protects against either solver wandering off.)"""
    name, smt, rlimit, want_model = job
    t0 = time.time()
    d = tempfile.mkdtemp(prefix='pyvc_')
    path = os.path.join(d, 'q.smt2')
    try:
        with open(path, 'w') as f:
            f.write('(set-logic ALL)\n' + smt)
        procs = {
            'z3': subprocess.Popen(['z3-new', 'rlimit=%d' % rlimit, '-T:%d' % (WALL_MS // 1000), path], stdout=subprocess.PIPE, stderr=subprocess.DEVNULL, text=True),
            'cvc5': subprocess.Popen(['/usr/bin/cvc5', '--strings-exp', '--tlimit=%d' % WALL_MS, path], stdout=subprocess.PIPE, stderr=subprocess.DEVNULL, text=True),
        }
        verdicts = {}
        winner = None
        while procs and winner is None:
            for k in list(procs):
                p = procs[k]
                if p.poll() is not None:
                    out = (p.stdout.read() or '').strip().splitlines()
                    v = out[0].strip() if out else 'error'
                    verdicts[k] = v
                    del procs[k]
                    if v in ('sat', 'unsat'):
                        winner = k
                        break
            if winner is None and procs:
                time.sleep(0.01)
        for p in procs.values():
            p.kill()
            p.wait()
        res = {'name': name, 'time': time.time() - t0}
        if winner is None:
            res.update(solver='z3+cvc5', status='unknown', reason=str(verdicts))
            return res
        res['solver'] = winner
        res['status'] = 'proved' if verdicts[winner] == 'unsat' else 'refuted'
        if res['status'] == 'refuted' and want_model:
            try:
                s = z3.Solver()
                s.set('timeout', 20000)
                s.from_string(smt)
                if s.check() == z3.sat:
                    m = s.model()
                    res['model'] = {str(x): str(m[x])[:300] for x in m.decls()[:400] if x.arity() == 0}
            except Exception:
                pass
        return res
    except Exception as e:
        return {'name': name, 'solver': 'z3+cvc5', 'status': 'error', 'reason': repr(e)[:300], 'time': time.time() - t0}
    finally:
        import shutil
        shutil.rmtree(d, ignore_errors=True)


def _cvc5(job):
    name, smt, _, _ = job
    t0 = time.time()
    with tempfile.NamedTemporaryFile('w', suffix='.smt2', delete=False) as f:
        f.write('(set-logic ALL)\n' + smt)
        path = f.name
    try:
        p = subprocess.run(['/usr/bin/cvc5', '--strings-exp', '--tlimit=%d' % WALL_MS, path], capture_output=True, text=True, timeout=WALL_MS / 1000 + 10)
        out = p.stdout.strip().splitlines()
        verdict = out[0] if out else 'error'
        st = {'unsat': 'proved', 'sat': 'refuted'}.get(verdict, 'unknown')
        return {'name': name, 'solver': 'cvc5', 'status': st, 'time': time.time() - t0, 'reason': (p.stderr or verdict)[:200]}
    except Exception as e:
        return {'name': name, 'solver': 'cvc5', 'status': 'unknown', 'reason': repr(e)[:200], 'time': time.time() - t0}
    finally:
        os.unlink(path)


def discharge_all(ex, obligations, workers=None, rlimit=None, second_solver=False, axioms_for=None):
    # one query per (clause, path); verdicts are aggregated per clause name afterwards
    groups = group(obligations)
    jobs, owner = [], []
    for gi, ob in enumerate(groups):
        for pc, goal in ob['parts']:
            part = {'name': ob['name'], 'pc': pc, 'goal': goal}
            extra = axioms_for(part) if axioms_for else ()
            jobs.append((ob['name'], to_smt2(ex, part, extra), rlimit or RLIMIT, True))
            owner.append(gi)
    workers = workers or max(2, min(16, os.cpu_count() or 4) // 2)
    from concurrent.futures import ThreadPoolExecutor
    with ThreadPoolExecutor(max_workers=workers) as pool:
        results = list(pool.map(_race, jobs))
    if second_solver:
        idx = [i for i, r in enumerate(results) if r['status'] == 'proved' and r['solver'] == 'z3']
        with ThreadPoolExecutor(max_workers=workers * 2) as pool:
            second = list(pool.map(_cvc5, [jobs[i] for i in idx]))
        for i, r2 in zip(idx, second):
            results[i]['cvc5_recheck'] = r2['status']
    final = []
    for gi, ob in enumerate(groups):
        rs = [r for r, o in zip(results, owner) if o == gi]
        agg = {'name': ob['name'], 'func': ob['func'], 'clause': ob['clause'], 'kind': ob['kind'], 'paths': len(rs),
               'time': sum(r['time'] for r in rs), 'solver': '+'.join(sorted({r['solver'] for r in rs}))}
        ref = [r for r in rs if r['status'] == 'refuted']
        unk = [r for r in rs if r['status'] in ('unknown', 'error')]
        if ref:
            agg['status'] = 'refuted'
            agg['model'] = ref[0].get('model', {})
        elif unk:
            agg['status'] = 'unknown'
            agg['reason'] = unk[0].get('reason')
        else:
            agg['status'] = 'proved'
        if any('cvc5_recheck' in r for r in rs):
            agg['cvc5_recheck'] = ','.join(sorted({r.get('cvc5_recheck', '-') for r in rs}))
        final.append(agg)
    return final
