"""Discharge of proof obligations: z3 (deterministic rlimit) first, cvc5 for what z3 leaves unknown.
One query per obligation:  base facts (restricted to the class / singleton constants the query mentions) AND pc AND NOT goal."""
import os, subprocess, tempfile, time
from concurrent.futures import ProcessPoolExecutor
import z3

RLIMIT = int(os.environ.get('PYVC_RLIMIT', '30000000'))
WALL_MS = int(os.environ.get('PYVC_WALL_MS', '120000'))


def relevant_base(ex, formulas):
    """ground class-hierarchy / singleton facts over the constants that occur in the formulas"""
    names = set()
    seen = set()
    stack = list(formulas)
    while stack:
        t = stack.pop()
        i = t.get_id()
        if i in seen:
            continue
        seen.add(i)
        if z3.is_const(t) and t.decl().kind() == z3.Z3_OP_UNINTERPRETED:
            names.add(t.decl().name())
        stack.extend(t.children())
    from . import z as Z
    facts = ex.facts
    cls = [n for n in facts.class_names if ('CLS_' + n.replace('.', '_')) in names]
    for must in ('object', 'BaseException', 'Exception'):
        if must not in cls:
            cls.append(must)
    sing = [n for n in facts.singletons if n in names]
    out = []
    cc = [ex.cls_const(n) for n in cls]
    for a in cls:
        for b in cls:
            out.append(ex.sub_fact[(a, b)])
    sc = [Z.const(n) for n in sing] + [Z.NONE, Z.TRUE, Z.FALSE]
    out.append(z3.Distinct(*(sc + cc)))
    for n in sing:
        c = Z.const(n)
        out += [Z.truthy_(c) == facts.singleton_truthy[n], z3.Not(Z.is_int(c)), z3.Not(Z.is_str(c)), z3.Not(Z.is_tuple(c)),
                Z.klass(c) == ex.cls_const(facts.singleton_class[n]), Z.callable_(c) == facts.singleton_callable[n]]
    out += [Z.klass(Z.NONE) == ex.cls_const('NoneType'), z3.Not(Z.is_int(Z.NONE)), z3.Not(Z.is_str(Z.NONE)), z3.Not(Z.is_tuple(Z.NONE)),
            z3.Not(Z.truthy_(Z.NONE)), z3.Not(Z.callable_(Z.NONE))]
    for c in cc:
        out += [Z.callable_(c), Z.truthy_(c), z3.Not(Z.is_int(c)), z3.Not(Z.is_str(c)), z3.Not(Z.is_tuple(c))]
    out += [Z.truthy_(Z.TRUE), z3.Not(Z.truthy_(Z.FALSE))]
    return out


def group(obligations):
    """obligations generated on several paths for the same contract clause are one named obligation (names come from
    clauses, not from path numbering): it holds iff no path has pc AND NOT goal satisfiable."""
    out, index = [], {}
    for ob in obligations:
        if ob['name'] not in index:
            g = dict(ob)
            g['parts'] = []
            index[ob['name']] = g
            out.append(g)
        index[ob['name']]['parts'].append((ob['pc'], ob['goal']))
    return out


_DECL_FUN = {
    'py_subclass': '(declare-fun py_subclass (Int Int) Bool)', 'py_truthy': '(declare-fun py_truthy (Int) Bool)',
    'py_is_int': '(declare-fun py_is_int (Int) Bool)', 'py_is_str': '(declare-fun py_is_str (Int) Bool)',
    'py_is_tuple': '(declare-fun py_is_tuple (Int) Bool)', 'py_klass': '(declare-fun py_klass (Int) Int)',
    'py_callable': '(declare-fun py_callable (Int) Bool)',
}
_NAME_RE = None


def base_text(ex, smt):
    """ground class-hierarchy / singleton facts, as SMT-LIB text, restricted to the constants the query mentions"""
    import re
    global _NAME_RE
    if _NAME_RE is None:
        _NAME_RE = re.compile(r'\(declare-fun (\|[^|]+\||[^ ]+) ')
    declared = set(m.strip('|') for m in _NAME_RE.findall(smt))
    facts = ex.facts
    cname = lambda n: 'CLS_' + n.replace('.', '_')
    cls = [n for n in facts.class_names if cname(n) in declared]
    for must in ('object', 'BaseException', 'Exception', 'NoneType'):
        if must not in cls:
            cls.append(must)
    sing = [n for n in facts.singletons if n in declared]
    decls, out = [], []
    def need_const(n):
        if n not in declared:
            declared.add(n)
            decls.append('(declare-fun %s () Int)' % n)
    for f, d in _DECL_FUN.items():
        if f not in declared:
            declared.add(f)
            decls.append(d)
    for n in cls:
        need_const(cname(n))
    for n in ('py_None', 'py_True', 'py_False'):
        need_const(n)
    for a in cls:
        for b in cls:
            t = '(py_subclass %s %s)' % (cname(a), cname(b))
            out.append('(assert %s)' % (t if facts.issub(a, b) else '(not %s)' % t))
    allc = sing + ['py_None', 'py_True', 'py_False'] + [cname(n) for n in cls]
    out.append('(assert (distinct %s))' % ' '.join(allc))
    for n in sing:
        tv = 'true' if facts.singleton_truthy[n] else 'false'
        cv = 'true' if facts.singleton_callable[n] else 'false'
        kc = cname(facts.singleton_class[n])
        need_const(kc)
        out.append('(assert (and (= (py_truthy {0}) {1}) (not (py_is_int {0})) (not (py_is_str {0})) (not (py_is_tuple {0})) (= (py_klass {0}) {2}) (= (py_callable {0}) {3})))'.format(n, tv, kc, cv))
    out.append('(assert (and (= (py_klass py_None) CLS_NoneType) (not (py_is_int py_None)) (not (py_is_str py_None)) (not (py_is_tuple py_None)) (not (py_truthy py_None)) (not (py_callable py_None)) (py_truthy py_True) (not (py_truthy py_False))))')
    for n in cls:
        out.append('(assert (and (py_callable {0}) (py_truthy {0}) (not (py_is_int {0})) (not (py_is_str {0})) (not (py_is_tuple {0}))))'.format(cname(n)))
    return decls, out


def to_smt2(ex, ob, extra_axioms=()):
    s = z3.Solver()
    parts = ob.get('parts') or [(ob['pc'], ob['goal'])]
    bad = [z3.And(*(list(pc) + [z3.Not(goal)])) for pc, goal in parts]
    fs = [z3.Or(*bad) if len(bad) > 1 else bad[0]] + list(extra_axioms)
    s.add(*fs)
    smt = s.to_smt2()
    decls, facts = base_text(ex, smt)
    body = smt.replace('(check-sat)', '')
    # declarations first (z3 prints them before the first assert); new ones go on top
    return '\n'.join(decls) + '\n' + body + '\n' + '\n'.join(facts) + '\n(check-sat)\n'


def _solve(job):
    name, smt, rlimit, want_model = job
    t0 = time.time()
    try:
        s = z3.Solver()
        s.set('rlimit', rlimit)
        s.set('timeout', WALL_MS)
        s.from_string(smt)
        r = s.check()
        res = {'name': name, 'solver': 'z3', 'time': time.time() - t0}
        if r == z3.unsat:
            res['status'] = 'proved'
        elif r == z3.sat:
            res['status'] = 'refuted'
            if want_model:
                m = s.model()
                res['model'] = {str(d): str(m[d])[:300] for d in m.decls()[:400] if d.arity() == 0}
        else:
            res['status'] = 'unknown'
            res['reason'] = s.reason_unknown()
        return res
    except Exception as e:     # solver crash is never a verdict
        return {'name': name, 'solver': 'z3', 'status': 'error', 'reason': repr(e)[:300], 'time': time.time() - t0}


def _race(job):
    """run z3 (rlimit) and cvc5 on the same query as separate processes; the first definitive verdict wins.
    (sat/unsat cannot disagree between sound solvers; racing only protects against either solver wandering off.)"""
    name, smt, rlimit, want_model = job
    t0 = time.time()
    d = tempfile.mkdtemp(prefix='pyvc_')
    path = os.path.join(d, 'q.smt2')
    try:
        with open(path, 'w') as f:
            f.write('(set-logic ALL)\n' + smt)
        procs = {
            'z3': subprocess.Popen(['z3-new', 'rlimit=%d' % rlimit, '-T:%d' % (WALL_MS // 1000), path], stdout=subprocess.PIPE, stderr=subprocess.DEVNULL, text=True),
            'cvc5': subprocess.Popen(['/usr/bin/cvc5', '--strings-exp', '--tlimit=%d' % WALL_MS, path], stdout=subprocess.PIPE, stderr=subprocess.DEVNULL, text=True),
        }
        verdicts = {}
        winner = None
        while procs and winner is None:
            for k in list(procs):
                p = procs[k]
                if p.poll() is not None:
                    out = (p.stdout.read() or '').strip().splitlines()
                    v = out[0].strip() if out else 'error'
                    verdicts[k] = v
                    del procs[k]
                    if v in ('sat', 'unsat'):
                        winner = k
                        break
            if winner is None and procs:
                time.sleep(0.01)
        for p in procs.values():
            p.kill()
            p.wait()
        res = {'name': name, 'time': time.time() - t0}
        if winner is None:
            res.update(solver='z3+cvc5', status='unknown', reason=str(verdicts))
            return res
        res['solver'] = winner
        res['status'] = 'proved' if verdicts[winner] == 'unsat' else 'refuted'
        return res
    except Exception as e:
        return {'name': name, 'solver': 'z3+cvc5', 'status': 'error', 'reason': repr(e)[:300], 'time': time.time() - t0}
    finally:
        import shutil
        shutil.rmtree(d, ignore_errors=True)


def _cvc5(job):
    name, smt, _, _ = job
    t0 = time.time()
    with tempfile.NamedTemporaryFile('w', suffix='.smt2', delete=False) as f:
        f.write('(set-logic ALL)\n' + smt)
        path = f.name
    try:
        p = subprocess.run(['/usr/bin/cvc5', '--strings-exp', '--tlimit=%d' % WALL_MS, path], capture_output=True, text=True, timeout=WALL_MS / 1000 + 10)
        out = p.stdout.strip().splitlines()
        verdict = out[0] if out else 'error'
        st = {'unsat': 'proved', 'sat': 'refuted'}.get(verdict, 'unknown')
        return {'name': name, 'solver': 'cvc5', 'status': st, 'time': time.time() - t0, 'reason': (p.stderr or verdict)[:200]}
    except Exception as e:
        return {'name': name, 'solver': 'cvc5', 'status': 'unknown', 'reason': repr(e)[:200], 'time': time.time() - t0}
    finally:
        os.unlink(path)


def prepare(ex, obligations, axioms_for=None):
    """-> list of jobs, one per (clause, path): dict(name, smt, func, clause, kind).  Runs in the symexec worker."""
    jobs = []
    for ob in group(obligations):
        for pc, goal in ob['parts']:
            part = {'name': ob['name'], 'pc': pc, 'goal': goal}
            extra = axioms_for(part) if axioms_for else ()
            jobs.append({'name': ob['name'], 'smt': to_smt2(ex, part, extra), 'func': ob['func'], 'clause': ob['clause'], 'kind': ob['kind']})
    return jobs


def solve_jobs(jobs, workers=None, rlimit=None, second_solver=False):
    """one race (z3 | cvc5) per job; verdicts aggregated per obligation name"""
    from concurrent.futures import ThreadPoolExecutor
    workers = workers or max(2, min(16, os.cpu_count() or 4) // 2)
    tuples = [(j['name'], j['smt'], rlimit or RLIMIT, True) for j in jobs]
    with ThreadPoolExecutor(max_workers=workers) as pool:
        results = list(pool.map(_race, tuples))
    nmodels = 0
    for job, r in zip(tuples, results):
        if r['status'] == 'refuted' and nmodels < 6:
            nmodels += 1
            try:
                s = z3.Solver()
                s.set('timeout', 20000)
                s.from_string(job[1])
                if s.check() == z3.sat:
                    m = s.model()
                    r['model'] = {str(x): str(m[x])[:300] for x in m.decls()[:400] if x.arity() == 0}
            except Exception:
                pass
    if second_solver:
        idx = [i for i, r in enumerate(results) if r['status'] == 'proved' and r['solver'] == 'z3']
        with ThreadPoolExecutor(max_workers=workers * 2) as pool:
            second = list(pool.map(_cvc5, [tuples[i] for i in idx]))
        for i, r2 in zip(idx, second):
            results[i]['cvc5_recheck'] = r2['status']
    final, index = [], {}
    for j, r in zip(jobs, results):
        if j['name'] not in index:
            index[j['name']] = {'name': j['name'], 'func': j['func'], 'clause': j['clause'], 'kind': j['kind'], 'rs': []}
            final.append(index[j['name']])
        index[j['name']]['rs'].append(r)
    out = []
    for g in final:
        rs = g.pop('rs')
        agg = dict(g, paths=len(rs), time=sum(r['time'] for r in rs), solver='+'.join(sorted({r['solver'] for r in rs})))
        ref = [r for r in rs if r['status'] == 'refuted']
        unk = [r for r in rs if r['status'] in ('unknown', 'error')]
        if ref:
            agg['status'] = 'refuted'
            agg['model'] = next((r['model'] for r in ref if 'model' in r), {})
        elif unk:
            agg['status'] = 'unknown'
            agg['reason'] = unk[0].get('reason')
        else:
            agg['status'] = 'proved'
        if any('cvc5_recheck' in r for r in rs):
            agg['cvc5_recheck'] = ','.join(sorted({r.get('cvc5_recheck', '-') for r in rs}))
        out.append(agg)
    return out


def discharge_all(ex, obligations, workers=None, rlimit=None, second_solver=False, axioms_for=None):
    return solve_jobs(prepare(ex, obligations, axioms_for), workers, rlimit, second_solver)
