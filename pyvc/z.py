"""z3 vocabulary of the value / heap model (DESIGN.md section 3.3).

Every Python value is a reference R (z3 Int).  Payload functions give meaning to references.  No
quantified axioms are used for the value model: ground instances are emitted when a box term is built.
"""
import z3

R = z3.IntSort()
B = z3.BoolSort()
I = z3.IntSort()
S = z3.StringSort()
SeqR = z3.SeqSort(R)
Tok = z3.DeclareSort('Tok')          # the opaque user world (targets, user objects, user callables' state)
ArrRR = z3.ArraySort(R, R)
ArrRB = z3.ArraySort(R, B)
ArrRSeq = z3.ArraySort(R, SeqR)
ArrDV = z3.ArraySort(R, ArrRR)
ArrDH = z3.ArraySort(R, ArrRB)

_FUN = {}


def fn(name, *sorts):
    key = (name, tuple(str(s) for s in sorts))
    if key not in _FUN:
        _FUN[key] = z3.Function(name, *sorts)
    return _FUN[key]


box_int, intval, is_int = fn('py_box_int', I, R), fn('py_intval', R, I), fn('py_is_int', R, B)
box_str, strval, is_str = fn('py_box_str', S, R), fn('py_strval', R, S), fn('py_is_str', R, B)
box_tup, tupitems, is_tuple = fn('py_box_tup', SeqR, R), fn('py_tupitems', R, SeqR), fn('py_is_tuple', R, B)
box_bool = fn('py_box_bool', B, R)
boolval = fn('py_boolval', R, B)
klass = fn('py_klass', R, R)
subclass = fn('py_subclass', R, R, B)
callable_ = fn('py_callable', R, B)
truthy_ = fn('py_truthy', R, B)          # truthiness of values whose bool() cannot run user code
birth = fn('py_birth', R, I)
NONE = z3.Int('py_None')
TRUE = z3.Int('py_True')
FALSE = z3.Int('py_False')

_CONST = {}


def const(name):
    if name not in _CONST:
        _CONST[name] = z3.Int(name)
    return _CONST[name]


def seq_of(terms):
    if not terms:
        return z3.Empty(SeqR)
    units = [z3.Unit(t) for t in terms]
    return units[0] if len(units) == 1 else z3.Concat(*units)


def is_concrete_int(t):
    t = z3.simplify(t)
    return z3.is_int_value(t)


def concrete_int(t):
    t = z3.simplify(t)
    return t.as_long() if z3.is_int_value(t) else None


def py_floordiv(a, b):
    """Python floor division on mathematical integers (z3's `/` on Int is Euclidean-style: rounds so that the
    remainder is non-negative, which differs from floor for negative divisors)."""
    q = a / b
    r = a - b * q          # 0 <= r < |b|
    return z3.If(z3.And(b < 0, r != 0), q - 1, q)   # SMT-LIB div keeps 0 <= r < |b|; floor differs only for b < 0, r != 0


def py_mod(a, b):
    return a - b * py_floordiv(a, b)


def slice_bounds(n, start, stop):
    """Python's clamping for s[start:stop] with step 1 on a sequence of length n.  start/stop are z3 Ints or None.
    Returns (lo, hi) with 0 <= lo, hi <= n; the slice is seq.extract(lo, max(hi-lo,0))."""
    def norm(x, default):
        if x is None:
            return default
        return z3.If(x < 0, z3.If(x + n < 0, z3.IntVal(0), x + n), z3.If(x > n, n, x))
    lo = norm(start, z3.IntVal(0))
    hi = norm(stop, n)
    return lo, hi


def seq_slice(s, start, stop):
    n = z3.Length(s)
    lo, hi = slice_bounds(n, start, stop)
    ln = z3.If(hi > lo, hi - lo, z3.IntVal(0))
    return z3.SubSeq(s, lo, ln)
