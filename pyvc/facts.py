"""Native facts taken from the imported working tree on every run: the issubclass table over every class named in
glom (and the builtin exception / container classes), identities of module-level singletons, and the resolution of
module-global names to canonical identities (so that `from .core import T` in another module denotes the same object).
A change to a class statement (e.g. dropping KeyError from PathAccessError's bases) changes these facts."""
import builtins, importlib, inspect, sys, types

MODS = ['core', 'matching', 'mutation', 'grouping', 'reduction', 'streaming', 'cli']
BUILTIN_CLASSES = ['object', 'type', 'int', 'str', 'bytes', 'bool', 'float', 'tuple', 'list', 'dict', 'set', 'frozenset', 'slice',
                   'BaseException', 'Exception', 'TypeError', 'ValueError', 'KeyError', 'IndexError', 'AttributeError', 'LookupError',
                   'ZeroDivisionError', 'ArithmeticError', 'StopIteration', 'OSError', 'ImportError', 'NameError', 'RuntimeError',
                   'NotImplementedError', 'AssertionError', 'KeyboardInterrupt', 'GeneratorExit', 'SystemExit']


class Facts:
    def __init__(self, repo_root='/repo'):
        if repo_root not in sys.path:
            sys.path.insert(0, repo_root)
        for m in [k for k in sys.modules if k == 'glom' or k.startswith('glom.')]:
            del sys.modules[m]
        self.mods = {}
        for m in MODS:
            try:
                self.mods[m] = importlib.import_module('glom.' + m)
            except Exception as e:      # cli needs face; keep going without it
                self.mods[m] = None
                self.import_error = (m, e)
        import collections
        self.classes = {}
        for n in BUILTIN_CLASSES:
            self.classes[n] = getattr(builtins, n)
        self.classes['NoneType'] = type(None)
        self.classes['function'] = types.FunctionType
        self.classes['OrderedDict'] = collections.OrderedDict
        self.classes['ChainMap'] = collections.ChainMap
        self.classes['Sentinel'] = type('Sentinel', (object,), {})
        self.by_id = {}
        self.canon = {}
        self.singletons, self.singleton_truthy, self.singleton_class, self.singleton_callable = [], {}, {}, {}
        self.extern_classes = {}
        self.singleton_kind = {}
        for m in MODS:
            mod = self.mods[m]
            if mod is None:
                continue
            for name, obj in list(vars(mod).items()):
                if name.startswith('__') and name.endswith('__'):
                    continue
                self._register(m, name, obj)
        self.class_names = sorted(self.classes)
        self._sub = {}
        for a in self.class_names:
            for b in self.class_names:
                try:
                    self._sub[(a, b)] = issubclass(self.classes[a], self.classes[b])
                except TypeError:
                    self._sub[(a, b)] = False

    def _register(self, m, name, obj):
        key = (m, name)
        oid = id(obj)
        if isinstance(obj, type):
            home = getattr(obj, '__module__', '')
            if home.startswith('glom.'):
                hm = home.split('.', 1)[1]
                qn = '%s.%s' % (hm, obj.__qualname__)
                self.classes.setdefault(qn, obj)
                for nn, nobj in list(vars(obj).items()):
                    if isinstance(nobj, type) and getattr(nobj, '__module__', '') == home and nobj.__qualname__.startswith(obj.__qualname__ + '.'):
                        self.classes.setdefault('%s.%s' % (hm, nobj.__qualname__), nobj)
                self.canon[key] = ('class', qn)
            elif obj.__name__ in self.classes and self.classes[obj.__name__] is obj:
                self.canon[key] = ('class', obj.__name__)
            else:
                self.canon[key] = ('extern', '%s.%s' % (getattr(obj, '__module__', ''), obj.__name__))
            return
        if isinstance(obj, types.ModuleType):
            self.canon[key] = ('module', obj.__name__.split('.')[-1] if not obj.__name__.startswith('glom') else 'glom')
            return
        if isinstance(obj, types.FunctionType):
            home = getattr(obj, '__module__', '')
            if home.startswith('glom.'):
                self.canon[key] = ('function', '%s.%s' % (home.split('.', 1)[1], obj.__qualname__))
            else:
                self.canon[key] = ('extern', '%s.%s' % (home, obj.__name__))
            return
        if isinstance(obj, (types.BuiltinFunctionType, types.MethodType)) or (callable(obj) and type(obj).__module__ in ('functools', 'builtins')):
            self.canon[key] = ('extern', getattr(obj, '__qualname__', name) if not isinstance(obj, types.MethodType) else name)
            return
        if isinstance(obj, (bool, int, str)) or obj is None:
            self.canon[key] = ('const', obj)
            return
        if isinstance(obj, tuple) and all(isinstance(x, (bool, int, str, type)) for x in obj):
            self.canon[key] = ('const', obj)
            return
        # singleton-like objects: sentinels, T/S/A, M, registries ...
        if oid in self.by_id:
            self.canon[key] = ('singleton', self.by_id[oid])
            return
        ident = name if m == 'core' else '%s_%s' % (m, name)
        if ident in self.singleton_class:
            ident = '%s_%s' % (m, name)
        self.by_id[oid] = ident
        self.canon[key] = ('singleton', ident)
        self.singletons.append(ident)
        try:
            self.singleton_truthy[ident] = bool(obj)
        except Exception:
            self.singleton_truthy[ident] = True
        cls = type(obj)
        cname = None
        for n, c in self.classes.items():
            if c is cls:
                cname = n
        if cname is None:
            home = getattr(cls, '__module__', '')
            if home.startswith('glom.'):
                cname = '%s.%s' % (home.split('.', 1)[1], cls.__name__)
                self.classes[cname] = cls
            else:
                cname = 'Sentinel'      # one artificial class for objects of foreign classes (boltons sentinels, dicts of module state)
        self.singleton_class[ident] = cname
        self.singleton_kind[ident] = 'sentinel' if type(obj).__name__ == 'Sentinel' else 'object'
        self.singleton_callable[ident] = callable(obj)

    def issub(self, a, b):
        return self._sub.get((a, b), False)

    def canonical(self, module, name):
        return self.canon.get((module, name))

    def native(self, module, name):
        return getattr(self.mods[module], name)
