"""The assembled executor."""
from .sym import Executor as _Base, Config, State, SV, Unsupported, NeedLoopContract, Out, sv_int, sv_bool, sv_str, sv_ref, NONE_SV, Closure, Obj
from .sym_access import AccessMixin
from .sym_call import CallMixin, Args
from .sym_stmt import StmtMixin, IterState


class Executor(StmtMixin, CallMixin, AccessMixin, _Base):
    def __init__(self, repo, facts, config=None, ref_modules=None):
        _Base.__init__(self, repo, facts, config, ref_modules)
        self.cur_class = None
        self.cur_func_node = None
        self.cur_func_name = None

    def run_function(self, name, node, module, st, cls=None):
        """execute a function body from a prepared state (parameters already bound in st.env)"""
        self.cur_func_node, self.cur_func_name = node, name
        self.cur_class = cls.split('.')[-1] if cls else None
        body = node.body
        return self.exec_block(body, st, module)
