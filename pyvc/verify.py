"""Contract layer: turns sidecar contracts into named proof obligations over the real function ASTs.

Contract kinds
  Post   requires / ensures / exceptional postconditions / loop invariants on one real function (per typed case)
  Equiv  the real function equals a reference function (outcome, exception, opaque event order, modelled heap);
         symbolic-length loops are paired and justified by loop-body equivalence obligations
  Lemma  a property-level statement over reference functions / contracts (Post or Equiv between two spec-level functions)
"""
import ast, time, os
import z3
from . import z as Z
from .z import fn, const, R, B, I, SeqR, Tok
from .engine import Executor, Config, State, SV, Unsupported, NeedLoopContract, Out, sv_int, sv_bool, sv_str, sv_ref, NONE_SV, Closure, Obj, Args, IterState


class Case:
    def __init__(self, name, args, requires=(), ensures=(), raises=None, may_raise=(), ensures_exc=None, **kw):
        self.name, self.args, self.requires, self.ensures = name, args, list(requires), list(ensures)
        self.raises = raises or {}          # class name -> condition (python expr over the arguments) under which it is raised
        self.may_raise = list(may_raise)    # classes that may additionally be raised (unconstrained)
        self.ensures_exc = ensures_exc or {}  # class name -> clauses over `exc`
        self.kw = kw


class Post:
    kind = 'post'

    def __init__(self, func, cases, loops=None, helpers=None, label=None, **kw):
        self.func, self.cases, self.loops, self.helpers, self.kw = func, cases, loops or {}, helpers, kw
        self.label = label or func


class Equiv:
    kind = 'equiv'

    def __init__(self, func, ref, args, requires=(), loops=None, label=None, observe=('tok', 'li', 'dv', 'dh', 'at'), ref_args=None, **kw):
        self.func, self.ref, self.args, self.requires, self.loops, self.kw = func, ref, args, list(requires), loops or {}, kw
        self.label = label or func
        self.observe = observe
        self.ref_args = ref_args


class NativeFacts:
    """facts about module-initialisation state / class statements, evaluated natively on the imported working tree (no inputs to
    quantify over); each becomes an obligation whose goal is the observed truth value"""
    kind = 'facts'

    def __init__(self, label, items, func='(module state)'):
        self.label, self.items, self.func, self.kw = label, items, func, {}

    def run(self, v):
        import z3 as _z3
        for name, clause, thunk in self.items:
            try:
                ok = thunk(v.facts)
                if ok is None:          # the item declines to decide (e.g. an unreviewed, unrecorded site): undecided, not a violation
                    v.undecided.append(('%s::%s' % (self.label, name), clause))
                    continue
                ok = bool(ok)
            except Exception as e:
                ok = False
                clause = '%s (raised %r)' % (clause, e)
            v.add('%s::%s' % (self.label, name), self.func, clause, [], _z3.BoolVal(ok), 'facts')


def make_arg(ex, st, name, tag, prefix='a_'):
    """typed symbolic argument"""
    if isinstance(tag, SV):
        return tag
    if tag == 'int':
        return SV('int', z3.Int(prefix + name))
    if tag == 'bool':
        return SV('bool', z3.Bool(prefix + name))
    if tag == 'str':
        return SV('str', z3.String(prefix + name))
    if tag == 'none':
        return NONE_SV
    if tag == 'seq':
        return SV('seq', z3.Const(prefix + name, SeqR))
    if tag.startswith('slice:'):
        parts = tag[6:].split(',')
        return SV('slice', tuple(make_arg(ex, st, '%s_%s' % (name, p), t, prefix) for p, t in zip(('start', 'stop', 'step'), parts)))
    if tag.startswith('tuple:'):
        parts = [p for p in tag[6:].split(',') if p]
        return SV('tuple', [make_arg(ex, st, '%s_%d' % (name, i), t, prefix) for i, t in enumerate(parts)])
    if tag.startswith('class:'):
        return SV('class', tag[6:])
    if tag.startswith('const:'):
        return sv_ref(const(tag[6:]), 'simple')
    t = z3.Int(prefix + name)
    ex.old(st, t)
    st.add(t != Z.NONE) if tag not in ('ref', 'simple') else None
    if tag in ('ref',):
        return sv_ref(t)
    if tag.startswith('inst:'):
        st.add(Z.klass(t) == ex.cls_const(tag[5:]), z3.Not(Z.is_int(t)), z3.Not(Z.is_str(t)), z3.Not(Z.is_tuple(t)))
    return sv_ref(t, tag)


class Verifier:
    def __init__(self, repo, facts, ref_modules, base_config=None):
        self.repo, self.facts, self.ref_modules = repo, facts, ref_modules
        self.base_config = base_config
        self.obligations = []     # dicts: name, func, clause, pc, goal, kind
        self.functions = {}       # function name -> info for the evidence
        self.undecided = []       # (name, reason)
        self.covers = []
        self.stmt_seen = set()
        self.loop_modifies = {}    # loop name -> attribute names its body stores (observed while proving loop-body equivalence)
        self.stats = {'paths': 0}

    def new_executor(self, config):
        ex = Executor(self.repo, self.facts, config, self.ref_modules)
        ex.stmt_seen = self.stmt_seen      # statement coverage of the real code by the symbolic executions (vacuity guard, see runner)
        return ex

    def note_function(self, name):
        if name in self.repo.functions:
            fi = self.repo.functions[name]
            self.functions[name] = {'file': 'glom/%s.py' % fi.module, 'lines': list(fi.span()), 'sha256_16': fi.sha()}

    def add(self, name, func, clause, pc, goal, kind='ensures'):
        self.obligations.append({'name': name, 'func': func, 'clause': clause, 'pc': list(pc), 'goal': goal, 'kind': kind})

    # ------------------------------------------------------------------------------------------------------------------
    def resolve(self, name):
        """-> (node, module, cls, display, is_real)"""
        if name in self.repo.functions:
            fi = self.repo.functions[name]
            return fi.node, fi.module, (fi.cls.name if fi.cls else None), name, True
        mod, _, fname = name.rpartition('.')
        tree = self.ref_modules[mod]
        for node in tree.body:
            if isinstance(node, ast.FunctionDef) and node.name == fname:
                return node, mod, None, name, False
        raise KeyError('contract has no subject: %s' % name)

    def init_state(self, ex, node, argtags, prefix='a_', positional=None):
        st = State()
        params = [a.arg for a in node.args.args]
        if node.args.vararg:
            params.append(node.args.vararg.arg)
        vals = {}
        for i, p in enumerate(params):
            if p in argtags:
                key = positional[i] if positional else p
                vals[p] = make_arg(ex, st, key, argtags[p], prefix)
        # defaults for parameters without a declared tag
        a = node.args
        defaults = a.defaults
        plain = [x.arg for x in a.args]
        for p, d in zip(plain[len(plain) - len(defaults):], defaults):
            if p not in vals:
                r = ex.eval(d, st, self._module_of(node))
                vals[p] = r[0][2]
        if node.args.kwarg and node.args.kwarg.arg in argtags:
            # **kwargs with a statically known key set: 'kw:name1,name2' -> symbolic values for exactly those keys
            spec = argtags[node.args.kwarg.arg]
            names = [n for n in spec[3:].split(',') if n]
            items = {}
            for n in names:
                nm, _, tg = n.partition('=')
                items[nm] = make_arg(ex, st, 'kw_' + nm, tg or 'ref', prefix)
            ref = ex.alloc(st, 'kwdict', Obj('kwdict', items=items))
            vals[node.args.kwarg.arg] = sv_ref(ref, 'kwdict')
        for p in params:
            if p not in vals:
                raise Unsupported('no type declared for parameter %s' % p)
        st.env.update(vals)
        st.ghost['$args'] = dict(vals)
        if node.args.kwarg and node.args.kwarg.arg in argtags:
            # the values passed as keyword arguments are nameable in clauses as kw_<name> (the kwargs dict itself may be consumed by pop())
            for nm, val in items.items():
                st.ghost['$args']['kw_' + nm] = val
                st.env.setdefault('kw_' + nm, val)
        st.env['$class'] = SV('cname', None)
        st.ghost['$pre'] = (st.tok, dict(st.arr))
        return st

    def _module_of(self, node):
        return getattr(node, '_pyvc_module', 'core')

    def config_for(self, contract, func_name, loops, extra=None):
        cfg = self.base_config() if self.base_config else Config()
        for o, lc in loops.items():
            cfg.loop_contracts[(func_name, o)] = lc
        if extra:
            extra(cfg)
        return cfg

    # ---- Post ----------------------------------------------------------------------------------------------------------------
    def verify_post(self, c):
        node, module, cls, disp, real = self.resolve(c.func)
        node._pyvc_module = module
        if real:
            self.note_function(c.func)
        for case in c.cases:
            label = '%s[%s]' % (c.label, case.name)
            try:
                self._verify_post_case(c, case, node, module, cls, label)
            except Unsupported as e:
                self.undecided.append((label, 'outside the verified subset: %s' % e))

    def _verify_post_case(self, c, case, node, module, cls, label):
        actual = self.dispatch(c.func, case.args)
        if actual != c.func:
            node, module, cls, _disp, _real = self.resolve(actual)
            node._pyvc_module = module
            self.note_function(actual)
        cfg = self.config_for(c, c.func, {o: dict(lc, mode='invariant') for o, lc in c.loops.items()}, c.kw.get('config'))
        if c.helpers:
            cfg.clause_module = c.helpers
        ex = self.new_executor(cfg)
        ex.cur_func_node, ex.cur_func_name = node, c.func
        st = self.init_state(ex, node, case.args)
        for g, tag in case.kw.get('ghosts', {}).items():
            st.env[g] = make_arg(ex, st, g, tag, prefix='g_')
        if cls:
            st.env['$class'] = SV('cname', cls)
        ex.cur_class = cls.split('.')[-1] if cls else None
        starts = ex.assume_clauses(st, case.requires, module)
        self.covers.append((label + '::requires-satisfiable', bool(starts)))
        if not starts:
            self.undecided.append((label, 'precondition unsatisfiable (vacuous contract)'))
            return
        npaths = 0
        nnormal = 0
        for s0 in starts:
            outs = ex.run_function(c.func, node, module, s0, cls)
            for o in outs:
                npaths += 1
                nnormal += o.kind in ('ret', 'fall')
                self._post_out(ex, c, case, o, module, label)
        for ob in ex.obligations:
            self.add(ob['name'] + '[%s]' % case.name, c.func, ob['clause'], ob['pc'], ob['goal'], 'invariant')
        self.stats['paths'] += npaths
        if not case.kw.get('raise_only') and not (case.raises and case.ensures == ['False']):
            self.covers.append((label + '::normal-path-reachable', nnormal > 0))

    def _post_out(self, ex, c, case, o, module, label):
        st = o.st
        if o.kind in ('ret', 'fall'):
            val = o.val if o.kind == 'ret' else NONE_SV
            s = st.fork()
            s.env.update(s.ghost.get('$args', {}))     # clauses speak about the arguments as passed, not as reassigned
            s.env['result'] = val
            for i, text in enumerate(case.ensures):
                expr = ex.parse_clause(text)
                for kind, s2, cnd in ex.cond(expr, s.fork(), ex.clause_module(module)):
                    goal = cnd if kind == 'ok' else z3.BoolVal(False)
                    self.add('%s::ensures#%d' % (label, i + 1), c.func, text, s2.pc, goal)
            for cname, text in case.raises.items():
                expr = ex.parse_clause(text)
                for kind, s2, cnd in ex.cond(expr, s.fork(), ex.clause_module(module)):
                    goal = z3.Not(cnd) if kind == 'ok' else z3.BoolVal(False)
                    self.add('%s::returns-only-when-not[%s]' % (label, cname), c.func, 'not (%s)' % text, s2.pc, goal, 'raises')
        elif o.kind == 'raise':
            s = st.fork()
            s.env.update(s.ghost.get('$args', {}))
            s.env['exc'] = o.val
            kt = ex.exc_class_term(s, o.val)
            allowed = []
            for cname, text in case.raises.items():
                expr = ex.parse_clause(text)
                for kind, s2, cnd in ex.cond(expr, s.fork(), ex.clause_module(module)):
                    m = Z.subclass(kt, ex.cls_const(cname))
                    goal = z3.Implies(m, cnd) if kind == 'ok' else z3.Not(m)
                    self.add('%s::raises[%s]-only-when' % (label, cname), c.func, text, s2.pc, goal, 'raises')
                allowed.append(Z.subclass(kt, ex.cls_const(cname)))
            for cname in case.may_raise:
                allowed.append(Z.subclass(kt, ex.cls_const(cname)))
            self.add('%s::raises-only-declared' % label, c.func, 'exception class in %s' % sorted(list(case.raises) + case.may_raise),
                     s.pc, z3.Or(*allowed) if allowed else z3.BoolVal(False), 'raises')
            for cname, clauses in case.ensures_exc.items():
                for i, text in enumerate(clauses):
                    expr = ex.parse_clause(text)
                    for kind, s2, cnd in ex.cond(expr, s.fork(), ex.clause_module(module)):
                        m = Z.subclass(kt, ex.cls_const(cname))
                        goal = z3.Implies(m, cnd) if kind == 'ok' else z3.Not(m)
                        self.add('%s::ensures-exc[%s]#%d' % (label, cname, i + 1), c.func, text, s2.pc, goal, 'raises')
        else:
            raise Unsupported('outcome %s at function level' % o.kind)

    # ---- Equiv ---------------------------------------------------------------------------------------------------------------
    def verify_equiv(self, c):
        cases = c.kw.get('cases')
        if not cases:
            cases = [(None, [])]
        base_req = list(c.requires)
        for cname, creq in cases:
            label = c.label if cname is None else '%s[%s]' % (c.label, cname)
            c.requires = base_req + list(creq)
            try:
                self._verify_equiv(c, label)
            except Unsupported as e:
                self.undecided.append((label, 'outside the verified subset: %s' % e))
        c.requires = base_req

    def dispatch(self, fname, argtags):
        """a contract names a method and types `self` as an instance of some class: what runs is the method that ordinary dispatch finds for
        that class (the named one, unless the class -- or a class between it and the definer -- overrides it; an override added later is then
        what the obligation executes)"""
        fi = self.repo.functions.get(fname)
        if fi is None or fi.cls is None or fi.kind != 'method' or not fi.node.args.args:
            return fname
        tag = (argtags or {}).get(fi.node.args.args[0].arg)
        if not (isinstance(tag, str) and tag.startswith('inst:')):
            return fname
        ci = self.repo.classes.get(tag[5:])
        if ci is None:
            return fname
        m = self.repo.lookup_method(ci, fi.node.name)
        return m.name if m is not None else fname

    def _run_side(self, c, which, fname, argtags, loops, positional):
        if which == 'impl':
            fname = self.dispatch(fname, argtags)
        node, module, cls, disp, real = self.resolve(fname)
        node._pyvc_module = module
        if real:
            self.note_function(fname)
        jobs = {}
        cfg = self.config_for(c, fname, {o: dict(lc, mode=lc.get('mode', 'summary')) for o, lc in loops.items()}, c.kw.get('config'))
        ex = self.new_executor(cfg)
        ex.run_generators = bool(cfg.hooks.get('run_generators'))
        ex.side = which
        ex.loop_jobs = jobs
        ex.cur_func_node, ex.cur_func_name = node, fname
        st = self.init_state(ex, node, argtags, positional=positional)
        if cls:
            st.env['$class'] = SV('cname', cls)
        starts = ex.assume_clauses(st, c.requires if which == 'impl' else c.kw.get('ref_requires', c.requires), module)
        outs = []
        for s0 in starts:
            outs += ex.run_function(fname, node, module, s0, cls)
        return ex, outs, jobs, bool(starts)

    def _verify_equiv(self, c, label):
        inode = self.resolve(c.func)[0]
        rnode = self.resolve(c.ref)[0]
        iparams = [a.arg for a in inode.args.args] + ([inode.args.vararg.arg] if inode.args.vararg else []) + ([inode.args.kwarg.arg] if inode.args.kwarg else [])
        rparams = [a.arg for a in rnode.args.args] + ([rnode.args.vararg.arg] if rnode.args.vararg else []) + ([rnode.args.kwarg.arg] if rnode.args.kwarg else [])
        positional = ['p%d' % i for i in range(max(len(iparams), len(rparams)))]
        rargs = c.ref_args or {rp: c.args[ip] for ip, rp in zip(iparams, rparams) if ip in c.args}
        iloops = {o: dict(lc, name='%s.loop%s' % (c.ref, lc.get('ref', o)), vars=lc['vars']) for o, lc in c.loops.items()}
        rloops = {lc.get('ref', o): dict(lc, name='%s.loop%s' % (c.ref, lc.get('ref', o)), vars=lc.get('ref_vars', lc['vars']), inv=lc.get('ref_inv', []))
                  for o, lc in c.loops.items()}
        exi, outs_i, jobs_i, ok1 = self._run_side(c, 'impl', c.func, c.args, iloops, positional)
        exr, outs_r, jobs_r, ok2 = self._run_side(c, 'ref', c.ref, rargs, rloops, positional)
        self.covers.append((label + '::requires-satisfiable', ok1 and ok2))
        if not (ok1 and ok2):
            self.undecided.append((label, 'precondition unsatisfiable (vacuous contract)'))
            return
        self.stats['paths'] += len(outs_i)
        if not c.kw.get('raise_only') and not any(label.endswith('[%s]' % x) or ('[%s,' % x) in label for x in c.kw.get('raise_only_cases', ())):
            self.covers.append((label + '::normal-path-reachable', any(o.kind in ('ret', 'fall') for o in outs_i)))
        self._match(label, c, exi, outs_i, exr, outs_r, 'equiv')
        for ob in exi.obligations + exr.obligations:
            self.add(ob['name'], c.func, ob['clause'], ob['pc'], ob['goal'], 'invariant')
        # loop-body equivalence for every summarised loop
        # (a worklist: executing an outer loop's body registers the loops nested in it, which need their own obligations)
        done = set()
        n_i, n_r = len(exi.obligations), len(exr.obligations)
        while not c.kw.get('skip_loop_bodies'):   # the generic loop-body obligations do not depend on the case; they are generated with the first case
            pending = sorted((set(jobs_i) | set(jobs_r)) - done)
            if not pending:
                break
            for lname in pending:
                done.add(lname)
                if lname not in jobs_i or lname not in jobs_r:
                    self.undecided.append(('%s::%s' % (label, lname), 'loop reached on one side only'))
                    continue
                self._loop_body_equiv(c.label, c, lname, exi, jobs_i[lname], exr, jobs_r[lname])
        # loop frame guard: a summarised loop leaves the attribute arrays untouched, which is only right if no attribute the loop body
        # stores is read (through the heap) after the loop
        for ln, attr in sorted(exi.post_loop_reads | exr.post_loop_reads):
            if attr in self.loop_modifies.get(ln, ()):
                self.undecided.append(('%s::%s' % (label, ln), 'attribute %r is stored by the body of the summarised loop and read after it (loop summary frame assumption does not hold)' % attr))
        # obligations raised while executing loop bodies (e.g. the head invariant of a nested loop established inside an outer body)
        for ob in exi.obligations[n_i:] + exr.obligations[n_r:]:
            self.add(ob['name'], c.func, ob['clause'], ob['pc'], ob['goal'], 'invariant')

    def _final_terms(self, ex, o, observe, at_keys):
        """publish what escapes through the outcome and collect the observable components"""
        st = o.st
        comps = []
        if o.kind in ('ret', 'raise'):
            ex.publish(st, o.val)
            comps.append(ex.box(st, o.val))
        elif o.kind == 'fall':
            comps.append(Z.NONE)
        return comps

    def _state_eq(self, sa, sb, observe):
        eqs = []
        if 'tok' in observe:
            eqs.append(sa.tok == sb.tok)
        for a in ('li', 'dv', 'dh'):
            if a in observe:
                eqs.append(sa.arr[a] == sb.arr[a])
        if 'at' in observe:
            keys = sorted({k for k in list(sa.arr) + list(sb.arr) if k.startswith('at:') or k.startswith('cls:')})
            for k in keys:
                if k.startswith('at:'):
                    eqs.append(sa.attr_arr(k[3:]) == sb.attr_arr(k[3:]))
                else:
                    da = sa.arr.get(k, const('cls0_' + k[4:].replace('.', '_')))
                    db = sb.arr.get(k, const('cls0_' + k[4:].replace('.', '_')))
                    eqs.append(da == db)
        return eqs

    def _match(self, label, c, exi, outs_i, exr, outs_r, what, extra_i=None, extra_r=None):
        kind_of = lambda o: 'ret' if o.kind == 'fall' else o.kind
        prepared_r = []
        for q in outs_r:
            comps = self._final_terms(exr, q, c.observe, None) + (extra_r(q) if extra_r else [])
            prepared_r.append((q, comps))
        counts = {}
        for p in outs_i:
            comps_p = self._final_terms(exi, p, c.observe, None) + (extra_i(p) if extra_i else [])
            disj = []
            pset = {f.get_id() for f in p.st.pc}
            for q, comps_q in prepared_r:
                if kind_of(q) != kind_of(p) or len(comps_q) != len(comps_p):
                    continue
                eqs = [a == b for a, b in zip(comps_p, comps_q)] + self._state_eq(p.st, q.st, c.observe)
                disj.append(z3.And(*([f for f in q.st.pc if f.get_id() not in pset] + eqs)))
            name = '%s::%s[%s]' % (label, what, getattr(p, 'tag', None) or kind_of(p))
            if os.environ.get('DEBUG_MATCH') and os.environ['DEBUG_MATCH'] in name:
                print('IMPL PATH', name, [e for e in p.st.events], 'candidates', len(disj))
                for q, comps_q in prepared_r:
                    if kind_of(q) == kind_of(p) and getattr(q, 'tag', None) == getattr(p, 'tag', None) and len(comps_q) == len(comps_p):
                        print('    REF', getattr(q, 'tag', None), [e for e in q.st.events])
                        sol = z3.Solver(); sol.set('timeout', 5000)
                        sol.add(*exi.base_facts); sol.add(*p.st.pc); sol.add(*q.st.pc)
                        if sol.check() == z3.unsat:
                            print('        (path conditions incompatible)'); continue
                        labels = ['comp%d' % i for i in range(len(comps_p))] + ['state%d' % i for i in range(20)]
                        eqs = [a == b for a, b in zip(comps_p, comps_q)] + self._state_eq(p.st, q.st, c.observe)
                        for lab, eq in zip(labels, eqs):
                            sol.push(); sol.add(z3.Not(eq)); r = sol.check(); sol.pop()
                            if r != z3.unsat:
                                print('        differs:', lab, str(z3.simplify(eq))[:400].replace('\n', ' '))
                        sol2 = z3.Solver(); sol2.set('timeout', 5000); sol2.add(*exi.base_facts); sol2.add(*p.st.pc)
                        for f in q.st.pc:
                            if f.get_id() in pset:
                                continue
                            sol2.push(); sol2.add(z3.Not(f)); r = sol2.check(); sol2.pop()
                            if r != z3.unsat:
                                print('        ref-side fact not implied:', str(f)[:300].replace('\n', ' '))
            self.add(name, c.func, 'same outcome, events and modelled heap as %s' % c.ref, p.st.pc, z3.Or(*disj) if disj else z3.BoolVal(False), what)

    def _site(self, o):
        ev = [e for e in o.st.events if isinstance(e, tuple) and e and e[0] == '$line']
        return 'L%d' % ev[-1][1] if ev else 'exit'

    def _generic_head(self, ex, job, lname, nvars):
        """a generic loop-head state: typed fresh symbols for the related variables, fresh heap, generic iterator state"""
        s = job['state'].fork()
        s.pc, s.seen = [], set()
        s.objs = {}
        s.nfresh = {k: 100 for k in ('list', 'dict', 'chainmap', 'kwdict')}
        s.events = []
        s.cur_exc = []
        tagn = lname.replace('.', '_')
        s.tok = z3.Const('lh_%s_tok' % tagn, Tok)
        for a, srt in (('li', Z.ArrRSeq), ('dv', Z.ArrDV), ('dh', Z.ArrDH)):
            s.arr[a] = z3.Const('lh_%s_%s' % (tagn, a), srt)
        for k in [k for k in s.arr if k.startswith('at:')]:
            s.arr[k] = z3.Const('lh_%s_at_%s' % (tagn, k[3:]), Z.ArrRR)
        for i, (vname, tag) in enumerate(job['lc']['vars']):
            if vname.startswith('='):
                continue
            v = make_arg(ex, s, '%s_v%d' % (tagn, i), tag, prefix='lh_')
            ex.set_var(s, vname, v)
        its = self._generic_its(ex, s, job['its'], tagn)
        return s, its

    def _generic_its(self, ex, s, its, tagn, depth=0):
        k = its.kind
        sfx = '%s_%d' % (tagn, depth)
        if k == 'seq':
            idx = z3.Int('lh_%s_idx' % sfx)
            s.add(idx >= 0)
            return its.clone(seq=z3.Const('lh_%s_seq' % sfx, SeqR), idx=idx)
        if k == 'list':
            idx = z3.Int('lh_%s_idx' % sfx)
            s.add(idx >= 0)
            return its.clone(ref=sv_ref(z3.Int('lh_%s_lref' % sfx), 'list'), idx=idx)
        if k == 'opaque':
            return its.clone(it=sv_ref(z3.Int('lh_%s_it' % sfx), 'iter'))
        if k == 'enum':
            cnt = z3.Int('lh_%s_cnt' % sfx)
            s.add(cnt >= 0)
            return its.clone(inner=self._generic_its(ex, s, its.inner, tagn, depth + 1), count=cnt)
        if k == 'zip':
            return its.clone(a=self._generic_its(ex, s, its.a, tagn, depth + 1), b=self._generic_its(ex, s, its.b, tagn, depth + 2))
        if k == 'range':
            return its.clone(i=z3.Int('lh_%s_i' % sfx), n=z3.Int('lh_%s_n' % sfx))
        if k == 'while':
            return its
        raise Unsupported('generic iterator state for ' + k)

    def _loop_body_equiv(self, label, c, lname, exi, ji, exr, jr):
        if len(ji['lc']['vars']) != len(jr['lc']['vars']):
            self.undecided.append(('%s::%s' % (label, lname), 'related variable lists differ in length'))
            return
        if ji['its'].kind != jr['its'].kind:
            self.undecided.append(('%s::%s' % (label, lname), 'iteration kinds differ (%s vs %s)' % (ji['its'].kind, jr['its'].kind)))
            return
        try:
            res = []
            for ex, job in ((exi, ji), (exr, jr)):
                ex.cur_func_node, ex.cur_func_name = job['func_node'], job['func_name']
                s, its = self._generic_head(ex, job, lname, len(job['lc']['vars']))
                heads = ex.assume_clauses(s, job['lc'].get('inv', []), job['module']) if job['lc'].get('inv') else [s]
                steps = []
                for hs in heads:
                    before = {k: a for k, a in hs.arr.items() if k.startswith('at:')}
                    got = ex.loop_step(hs, job['module'], its, job['bind'], job['body'])
                    for _kind, s_after, _v, _its in got:
                        for k, a in s_after.arr.items():
                            if k.startswith('at:') and (k not in before or not z3.eq(a, before[k])) and not z3.eq(a, z3.Const('at0_' + k[3:], Z.ArrRR)):
                                self.loop_modifies.setdefault(lname, set()).add(k[3:])
                    steps += got
                outs = []
                for kind, s2, val, its2 in steps:
                    if kind in ('fall', 'continue') and job['lc'].get('inv'):
                        n0 = len(ex.obligations)
                        ex.check_clauses(s2.fork(), job['lc']['inv'], job['module'], '%s::%s::inv-preserved' % (job['func_name'], lname))
                        for ob in ex.obligations[n0:]:
                            self.add(ob['name'], c.func, ob['clause'], ob['pc'], ob['goal'], 'invariant')
                        del ex.obligations[n0:]
                    kind = 'next' if kind in ('fall', 'continue') else kind
                    o = Out(kind if kind not in ('next', 'stop', 'break') else 'fall', s2, val if kind in ('ret', 'raise') else None)
                    o.tag = kind
                    o.its = its2
                    outs.append(o)
                res.append((ex, job, outs))
            (exa, ja, outs_a), (exb, jb, outs_b) = res
            def extra(ex, job):
                def f(o):
                    terms = [const('KIND_' + o.tag)]
                    if o.tag in ('raise', 'ret'):
                        return terms       # locals are dead when the loop is left by an exception or a return (see loop_summary)
                    for vname, tag in job['lc']['vars']:
                        v = NONE_SV if vname == '=None' else ex.lookup(o.st, vname, job['module'])
                        ex.publish(o.st, v)
                        terms.append(ex.box(o.st, v))
                    if o.tag == 'next':
                        terms += ex.its_terms(o.st, o.its)
                    return terms
                return f
            self._match('%s::%s' % (label, lname), c, exa, outs_a, exb, outs_b, 'body-equiv', extra(exa, ja), extra(exb, jb))
        except Unsupported as e:
            self.undecided.append(('%s::%s' % (label, lname), 'outside the verified subset: %s' % e))
