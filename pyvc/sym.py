"""PyVC symbolic executor: path-wise symbolic execution of real glom function ASTs (and of the reference
functions in /verif/contracts, which are parsed by the same machinery) over the value / heap model of z.py.

Outcomes of executing a block: Out(kind, st, val) with kind in fall | ret | raise | break | continue.
Expression evaluation returns a list of (kind, st, SV) with kind ok | raise (path splitting).
Anything outside the supported subset raises Unsupported -> the affected obligations are UNDECIDED (exit 2).
"""
import ast, itertools
import z3
from . import z as Z
from .z import fn, const, R, B, I, SeqR, Tok


class Unsupported(Exception):
    pass


class NeedLoopContract(Unsupported):
    pass


# ---------------------------------------------------------------------------------------------- values
class SV:
    __slots__ = ('k', 'v', 't')

    def __init__(self, k, v=None, t=None):
        self.k, self.v, self.t = k, v, t

    def __repr__(self):
        return 'SV(%s,%s%s)' % (self.k, self.v, (',' + str(self.t)) if self.t else '')


NONE_SV = SV('none')


def sv_int(x):
    return SV('int', z3.IntVal(x) if isinstance(x, int) else x)


def sv_bool(x):
    return SV('bool', z3.BoolVal(x) if isinstance(x, bool) else x)


def sv_str(x):
    return SV('str', z3.StringVal(x) if isinstance(x, str) else x)


def sv_ref(t, tag=None):
    return SV('ref', t, tag)


class _Args:
    def __init__(self, pos, kw, star=None, dstar=None):
        self.pos, self.kw, self.star, self.dstar = pos, kw, star, dstar

    def static(self):
        return self.star is None and self.dstar is None


class Closure:
    def __init__(self, node, module, fid, name=None, selfsv=None, cls=None, finfo=None):
        self.node, self.module, self.fid, self.name, self.selfsv, self.cls, self.finfo = node, module, fid, name, selfsv, cls, finfo


class Obj:
    """model of a fresh, not yet escaped object"""
    def __init__(self, kind, **kw):
        self.kind = kind
        self.__dict__.update(kw)

    def copy(self):
        o = Obj(self.kind)
        for k, v in self.__dict__.items():
            o.__dict__[k] = dict(v) if isinstance(v, dict) else (list(v) if isinstance(v, list) else v)
        return o


class Out:
    __slots__ = ('kind', 'st', 'val', 'tag', 'its')

    def __init__(self, kind, st, val=None):
        self.kind, self.st, self.val = kind, st, val
        self.tag, self.its = None, None


class State:
    def __init__(self):
        self.frames = {0: {}}
        self.fid = 0
        self.nframes = 1
        self.pc = []
        self.seen = set()
        self.tok = z3.Const('tok0', Tok)
        self.arr = {'li': z3.Const('li0', Z.ArrRSeq), 'dv': z3.Const('dv0', Z.ArrDV), 'dh': z3.Const('dh0', Z.ArrDH)}
        self.objs = {}
        self.nfresh = {}
        self.ghost = {}
        self.events = []       # informational trace of opaque events on this path (for reports)
        self.cur_exc = []      # stack of exceptions being handled (for bare `raise`)
        self.depth = 0

    def fork(self):
        s = State.__new__(State)
        s.frames = {k: dict(v) for k, v in self.frames.items()}
        s.fid, s.nframes = self.fid, self.nframes
        s.pc = list(self.pc)
        s.seen = set(self.seen)
        s.tok = self.tok
        s.arr = dict(self.arr)
        s.objs = {k: v.copy() for k, v in self.objs.items()}
        s.nfresh = dict(self.nfresh)
        s.ghost = dict(self.ghost)
        s.events = list(self.events)
        s.cur_exc = list(self.cur_exc)
        s.depth = self.depth
        return s

    def add(self, *facts):
        for f in facts:
            if isinstance(f, bool):
                f = z3.BoolVal(f)
            k = f.get_id()
            if k not in self.seen:
                self.seen.add(k)
                self.pc.append(f)

    @property
    def env(self):
        return self.frames[self.fid]

    def attr_arr(self, name):
        key = 'at:' + name
        if key not in self.arr:
            self.arr[key] = z3.Const('at0_' + name, Z.ArrRR)
        return self.arr[key]


# ---------------------------------------------------------------------------------------------- executor
BUILTIN_EXC = ['BaseException', 'Exception', 'TypeError', 'ValueError', 'KeyError', 'IndexError', 'AttributeError',
               'LookupError', 'ZeroDivisionError', 'ArithmeticError', 'StopIteration', 'OSError', 'ImportError',
               'NameError', 'RuntimeError', 'NotImplementedError', 'AssertionError', 'KeyboardInterrupt']
BUILTIN_TYPES = ['object', 'type', 'int', 'str', 'bytes', 'bool', 'float', 'tuple', 'list', 'dict', 'set', 'frozenset', 'slice',
                 'OrderedDict', 'ChainMap']
BUILTIN_FUNCS = ['len', 'isinstance', 'issubclass', 'type', 'callable', 'getattr', 'setattr', 'delattr', 'hasattr', 'id', 'sorted',
                 'zip', 'enumerate', 'reversed', 'range', 'sum', 'max', 'min', 'iter', 'next', 'repr', 'hash', 'print', 'any', 'all',
                 'map', 'filter', 'open', 'super', 'bbrepr', 'bbformat', 'format_invocation', 'same', 'subseq', 'old', 'assume', 'as_dict', 'as_list']


class Config:
    """per-check configuration of the executor (filled in by the contract layer)"""
    def __init__(self):
        self.summaries = {}        # qualified function name -> summary name (callee replaced by an uninterpreted summary)
        self.field_types = {}      # 'Class.field' or 'field' -> type tag ('seq','int','str','bool','ref','inst:core.TType','list','dict', ...)
        self.loop_contracts = {}   # (function name, ordinal) -> dict
        self.hooks = {}            # name -> callable, e.g. 'after_G'
        self.scope_keys = set()    # names of scope keys assumed present (ScopeInv)
        self.frame_keys = set()    # keys bound in every scope frame's own dict (FrameInv)
        self.max_inline_depth = 6
        self.opaque_globals = {}   # module-global name -> SV factory (symbolic configuration inputs)
        self.pure_builtins = set()
        self.extern = {}           # dotted external function name -> handler(ex, st, args) -> outcomes
        self.pure_ctors = set()    # classes whose construction is modelled as a pure function of the arguments (argument validation not modelled)
        self.kwdict_copy_as_dict = False  # dict(kwargs) yields a modelled dict (symbolic lookups) instead of a static kwargs model
        self.pure_models = {}      # qualified function name -> handler(ex, st, closure, args) -> outcomes (abstract pure functions)
        self.inline_star_ctors = set()  # classes whose constructor may be inlined with a symbolic *args tuple
        self.summary_result_tags = {}  # summary name -> type tag of its result
        self.class_attr_models = {}  # 'core.Path._CACHE' -> callable(ex, st) -> outcomes (modelled class-level state)
        self.scope_key_types = {}  # scope key constant name -> type tag of the bound value
        self.unroll_while = {}     # (function, ordinal) -> bound, for while loops over statically bounded data
        self.clause_module = None  # module in which contract clause expressions are resolved
        self.optional_attrs = set()  # instance attributes that may be absent (a plain read forks: present / AttributeError)


_SHARED = {}


class Executor:
    def __init__(self, repo, facts, config=None, ref_modules=None):
        """repo: extract.Repo; facts: native facts (class table, singleton identities); ref_modules: {name: ast.Module}"""
        self.repo, self.facts, self.cfg = repo, facts, config or Config()
        self.ref_modules = ref_modules or {}
        self.ref_funcs = {}
        self.ref_imports = {}
        self.ref_externs = {}
        for mname, tree in self.ref_modules.items():
            imap = self.ref_imports.setdefault(mname, {})
            for node in ast.walk(tree):
                if isinstance(node, ast.ImportFrom) and node.module and node.module.startswith('glom.'):
                    for al in node.names:
                        imap[al.asname or al.name] = (node.module.split('.', 1)[1], al.name)
                elif isinstance(node, ast.ImportFrom) and node.module and node.module.split('.')[0] in ('boltons', 'itertools', 'functools', 'collections'):
                    # an external library function imported by the reference itself: the same opaque primitive the real code gets for it
                    for al in node.names:
                        self.ref_externs.setdefault(mname, {})[al.asname or al.name] = '%s.%s' % (node.module, al.name)
            for node in tree.body:
                if isinstance(node, ast.FunctionDef):
                    self.ref_funcs[node.name] = (mname, node)
        self.obligations = []      # side obligations registered during execution (loop invariants etc.)
        self.post_loop_reads = set()   # (loop name, attribute) read from the heap after that summarised loop (loop frame guard)
        cache = _SHARED.get(id(facts))
        if cache is None:
            bf = self._base_facts()
            fs = z3.Solver()
            fs.set('rlimit', 400000)
            fs.set('timeout', 1500)      # feasibility pruning only: unknown / timeout keeps the path (sound, merely more paths)
            fs.add(*bf)
            sub = {}
            for a in facts.class_names:
                for b in facts.class_names:
                    f = Z.subclass(self.cls_const(a), self.cls_const(b))
                    sub[(a, b)] = f if facts.issub(a, b) else z3.Not(f)
            cache = _SHARED[id(facts)] = (bf, fs, facts, sub)
        self.base_facts, self.feas, self.sub_fact = cache[0], cache[1], cache[3]
        self.cur_func = None
        self.loop_ord = {}
        self.stats = {'paths': 0, 'feas_checks': 0}

    # ---- class constants / hierarchy ------------------------------------------------------------------------------
    def cls_const(self, name):
        """name: builtin ('KeyError') or qualified glom class ('core.PathAccessError')"""
        return const('CLS_' + name.replace('.', '_'))

    def _base_facts(self):
        out = []
        names = self.facts.class_names
        consts = [self.cls_const(n) for n in names]
        if len(consts) > 1:
            out.append(z3.Distinct(*consts))
        for a in names:
            for b in names:
                f = Z.subclass(self.cls_const(a), self.cls_const(b))
                out.append(f if self.facts.issub(a, b) else z3.Not(f))
        sing = [const(n) for n in self.facts.singletons] + [Z.NONE, Z.TRUE, Z.FALSE]
        out.append(z3.Distinct(*(sing + consts)))
        for n in self.facts.singletons:
            c = const(n)
            out.append(Z.truthy_(c) == self.facts.singleton_truthy[n])
            out.append(z3.Not(Z.is_int(c))); out.append(z3.Not(Z.is_str(c))); out.append(z3.Not(Z.is_tuple(c)))
            out.append(Z.klass(c) == self.cls_const(self.facts.singleton_class[n]))
            out.append(Z.callable_(c) == self.facts.singleton_callable[n])
        out.append(Z.klass(Z.NONE) == self.cls_const('NoneType'))
        out += [z3.Not(Z.is_int(Z.NONE)), z3.Not(Z.is_str(Z.NONE)), z3.Not(Z.is_tuple(Z.NONE)), z3.Not(Z.truthy_(Z.NONE)),
                z3.Not(Z.callable_(Z.NONE))]
        for c in consts:
            out += [Z.callable_(c), Z.truthy_(c), z3.Not(Z.is_int(c)), z3.Not(Z.is_str(c)), z3.Not(Z.is_tuple(c))]
        out += [Z.klass(Z.TRUE) == self.cls_const('bool'), Z.klass(Z.FALSE) == self.cls_const('bool'), Z.truthy_(Z.TRUE), z3.Not(Z.truthy_(Z.FALSE))]
        return out

    def class_term_facts(self, st, kt):
        """transitivity instances for a symbolic class term kt against the known class constants"""
        key = ('ctf', kt.get_id())
        if key in st.seen:
            return
        st.seen.add(key)
        if not hasattr(self, '_rel_classes'):
            core = {'object', 'type', 'dict', 'list', 'tuple', 'str', 'set', 'frozenset', 'OrderedDict', 'int', 'bool', 'bytes', 'NoneType'}
            self._rel_classes = [n for n in self.facts.class_names if n in core or self.facts.issub(n, 'BaseException')
                                 or n in ('core.TType', 'core.Spec', 'core.Path', 'matching.Required', 'matching.Optional', 'matching.Check',
                                          'matching._MSubspec', 'matching._MExpr', 'matching._MType', 'matching.And', 'matching.Or', 'matching.Not')]
        names = self._rel_classes
        for a in names:
            for b in names:
                if a != b and self.facts.issub(a, b):
                    st.add(z3.Implies(Z.subclass(kt, self.cls_const(a)), Z.subclass(kt, self.cls_const(b))))
        st.add(Z.subclass(kt, kt))
        st.add(Z.subclass(kt, self.cls_const('object')))

    # ---- feasibility -----------------------------------------------------------------------------------------------
    def feasible(self, st):
        """path pruning only (unknown keeps the path).  A fresh solver per query: the shared incremental solver was observed to hang
        (ignoring its timeout) on string-heavy path conditions."""
        self.stats['feas_checks'] += 1
        if not hasattr(self, '_feas_core'):
            names = [n for n in self.facts.class_names if self.facts.issub(n, 'BaseException') or n in
                     ('object', 'type', 'dict', 'list', 'tuple', 'str', 'set', 'frozenset', 'OrderedDict', 'int', 'bool', 'NoneType', 'core.TType', 'core.Spec', 'core.Path')]
            self._feas_core = [self.sub_fact[(a, b)] for a in names for b in names]
            sing = [const(n) for n in self.facts.singletons] + [Z.NONE, Z.TRUE, Z.FALSE]
            self._feas_core.append(z3.Distinct(*(sing + [self.cls_const(n) for n in self.facts.class_names])))
        if not hasattr(self, '_feas_solver'):
            self._feas_solver = z3.Solver()
            self._feas_solver.set('timeout', 400)
            self._feas_solver.add(*self._feas_core)
            self._feas_n = 0
        self._feas_n += 1
        if self._feas_n % 400 == 0:          # incremental solvers degrade after many push/pop rounds: start over now and then
            self._feas_solver = z3.Solver()
            self._feas_solver.set('timeout', 400)
            self._feas_solver.add(*self._feas_core)
        s = self._feas_solver
        import threading
        timer = threading.Timer(1.5, z3.main_ctx().interrupt)      # watchdog: z3 was observed to ignore its own timeout here
        timer.start()
        s.push()
        try:
            s.add(*st.pc)
            r = s.check()
        except z3.Z3Exception:
            r = z3.unknown
        finally:
            timer.cancel()
            try:
                s.pop()
            except z3.Z3Exception:
                self._feas_solver = z3.Solver()
                self._feas_solver.set('timeout', 400)
                self._feas_solver.add(*self._feas_core)
        return r != z3.unsat

    def split(self, st, cond):
        """-> [(st_true, True), (st_false, False)] restricted to feasible ones; cond is a z3 Bool"""
        c = z3.simplify(cond)
        if z3.is_true(c):
            return [(st, True)]
        if z3.is_false(c):
            return [(st, False)]
        res = []
        a = st.fork(); a.add(c)
        if self.feasible(a):
            res.append((a, True))
        b = st.fork(); b.add(z3.Not(c))
        if self.feasible(b):
            res.append((b, False))
        return res

    # ---- boxing ----------------------------------------------------------------------------------------------------
    def box(self, st, v):
        """SV -> z3 R term, emitting ground payload facts"""
        k = v.k
        if k == 'ref':
            if v.t == 'kwdict':
                o = self.local(st, v)
                if o is not None:
                    # a **kwargs dict with a statically known key set, boxed by value (name, value) pairs
                    pairs = [self._box_seq(st, Z.seq_of([self.box(st, sv_str(n)), self.box(st, x)])) for n, x in o.items.items()]
                    t = fn('kwdict_box', R, R)(self._box_seq(st, Z.seq_of(pairs)))
                    st.add(t != Z.NONE)
                    return t
            return v.v
        if k == 'none':
            return Z.NONE
        if k == 'int':
            t = Z.box_int(v.v)
            st.add(Z.is_int(t), Z.intval(t) == v.v, z3.Not(Z.is_str(t)), z3.Not(Z.is_tuple(t)), Z.klass(t) == self.cls_const('int'),
                   Z.truthy_(t) == (v.v != 0), z3.Not(Z.callable_(t)), t != Z.NONE)
            return t
        if k == 'bool':
            return z3.If(v.v, Z.TRUE, Z.FALSE)
        if k == 'str':
            t = Z.box_str(v.v)
            st.add(Z.is_str(t), Z.strval(t) == v.v, z3.Not(Z.is_int(t)), z3.Not(Z.is_tuple(t)), Z.klass(t) == self.cls_const('str'),
                   Z.truthy_(t) == (z3.Length(v.v) > 0), z3.Not(Z.callable_(t)), t != Z.NONE)
            return t
        if k == 'tuple':
            seq = Z.seq_of([self.box(st, e) for e in v.v])
            return self._box_seq(st, seq)
        if k == 'seq':
            return self._box_seq(st, v.v)
        if k == 'class':
            return self.cls_const(v.v)
        if k == 'builtin':
            c = const('BI_' + v.v)
            st.add(Z.callable_(c), Z.truthy_(c), c != Z.NONE)
            return c
        if k == 'func':
            return self._box_func(st, v.v)
        if k == 'bound':
            selfsv, meth = v.v
            name = meth.name if hasattr(meth, 'name') else str(meth)
            t = fn('bound!' + name, R, R)(self.box(st, selfsv))
            st.add(Z.callable_(t), Z.truthy_(t), t != Z.NONE)
            return t
        if k == 'slice':
            a, b, c = [self.box(st, x) for x in v.v]
            t = fn('box_slice', R, R, R, R)(a, b, c)
            st.add(Z.klass(t) == self.cls_const('slice'), fn('slice_start', R, R)(t) == a, fn('slice_stop', R, R)(t) == b,
                   fn('slice_step', R, R)(t) == c, z3.Not(Z.is_int(t)), z3.Not(Z.is_str(t)), z3.Not(Z.is_tuple(t)), t != Z.NONE)
            return t
        if k == 'module':
            return const('MOD_' + v.v)
        if k == 'ref' and False:
            pass
        raise Unsupported('cannot box %r' % (v,))

    def _box_seq(self, st, seq):
        t = Z.box_tup(seq)
        st.add(Z.is_tuple(t), Z.tupitems(t) == seq, z3.Not(Z.is_int(t)), z3.Not(Z.is_str(t)), Z.klass(t) == self.cls_const('tuple'),
               Z.truthy_(t) == (z3.Length(seq) > 0), z3.Not(Z.callable_(t)), t != Z.NONE)
        return t

    def _box_func(self, st, clo):
        # identity of a closure: definition site + the frame it closes over (a fresh function object per evaluation of the def/lambda)
        # (two closures with identical code and identical captured values are behaviourally identical)
        import hashlib, copy as _copy
        cap = []
        bound = set()
        for sub in ast.walk(clo.node):
            if isinstance(sub, (ast.Lambda, ast.FunctionDef)):
                bound |= {a.arg for a in sub.args.args + sub.args.kwonlyargs + sub.args.posonlyargs}
                if sub.args.vararg: bound.add(sub.args.vararg.arg)
                if sub.args.kwarg: bound.add(sub.args.kwarg.arg)
        order = []
        for sub in ast.walk(clo.node):
            if isinstance(sub, ast.Name) and sub.id not in order:
                order.append(sub.id)
        captured = [n for n in order if n not in bound and clo.fid is not None and clo.fid in st.frames and self._frame_has(st, clo.fid, n)]
        nested_def = isinstance(clo.node, ast.FunctionDef) and clo.fid is not None and not clo.name
        if isinstance(clo.node, ast.Lambda) or nested_def:
            # (a def nested in a function is treated like a lambda: its own name is immaterial)
            # identity up to renaming of parameters and captured variables (alpha-equivalence); globals keep their names
            ren = {}
            for n in order:
                if n in bound or n in captured:
                    ren[n] = 'v%d' % len(ren)
            norm = _copy.deepcopy(clo.node)
            if nested_def:
                norm.name = 'f'
                if norm.body and isinstance(norm.body[0], ast.Expr) and isinstance(norm.body[0].value, ast.Constant) and isinstance(norm.body[0].value.value, str):
                    norm.body = norm.body[1:] or [ast.Pass()]
            for sub in ast.walk(norm):
                if isinstance(sub, ast.Name) and sub.id in ren:
                    sub.id = ren[sub.id]
                elif isinstance(sub, ast.arg) and sub.arg in ren:
                    sub.arg = ren[sub.arg]
            site = 'clo_' + hashlib.sha1(ast.dump(norm).encode()).hexdigest()[:12]
        else:
            site = 'clo_%s_%s' % (clo.module, getattr(clo.node, 'name', 'f'))
        if True:
            for n in captured:
                if True:
                    val = self.lookup(st, n, clo.module, clo.fid)
                    if val.k in ('func',) and val.v is clo:
                        continue
                    try:
                        cap.append(self.box(st, val))
                    except Unsupported:
                        pass
        if clo.selfsv is not None:
            cap.append(self.box(st, clo.selfsv))
        t = fn(site, *([R] * len(cap)), R)(*cap) if cap else const(site)
        if not any(z3.eq(t, x) for x, _ in st.ghost.get('$clo', ())):
            st.ghost['$clo'] = list(st.ghost.get('$clo', ())) + [(t, clo)]
        st.add(Z.callable_(t), Z.truthy_(t), t != Z.NONE, z3.Not(Z.is_int(t)), z3.Not(Z.is_str(t)), z3.Not(Z.is_tuple(t)))
        return t

    def _frame_has(self, st, fid, name):
        f = fid
        while f is not None:
            fr = st.frames.get(f)
            if fr is None:
                return False
            if name in fr:
                return True
            p = fr.get('$parent')
            f = p.v if p is not None else None
        return False

    def unbox(self, st, term, tag):
        """R term -> SV according to a declared type tag"""
        if tag in (None, 'ref'):
            return sv_ref(term)
        if tag == 'int':
            st.add(Z.is_int(term)); return SV('int', Z.intval(term))
        if tag == 'str':
            st.add(Z.is_str(term)); return SV('str', Z.strval(term))
        if tag == 'bool':
            st.add(z3.Or(term == Z.TRUE, term == Z.FALSE)); return SV('bool', term == Z.TRUE)
        if tag == 'seq':
            st.add(Z.is_tuple(term)); return SV('seq', Z.tupitems(term))
        return sv_ref(term, tag)

    # ---- allocation / escape -----------------------------------------------------------------------------------------
    def alloc(self, st, kind, obj):
        n = st.nfresh.get(kind, 0) + 1
        st.nfresh[kind] = n
        ref = const('new_%s_%d' % (kind.replace(':', '_').replace('.', '_'), n))
        # distinct from everything that existed before and from other fresh objects
        st.add(Z.birth(ref) >= z3.Int('clock0'), ref != Z.NONE, z3.Not(Z.is_int(ref)), z3.Not(Z.is_str(ref)), z3.Not(Z.is_tuple(ref)))
        for other in st.ghost.get('$allocs', ()):
            st.add(ref != other)
        st.ghost['$allocs'] = list(st.ghost.get('$allocs', ())) + [ref]
        st.objs[str(ref)] = obj
        return ref

    def old(self, st, term):
        """mark a term as denoting an object that existed before this execution started"""
        st.add(Z.birth(term) < z3.Int('clock0'))

    def refkey(self, t):
        if z3.is_const(t) and t.decl().kind() == z3.Z3_OP_UNINTERPRETED:
            return t.decl().name()
        return None

    def local(self, st, v):
        if v.k != 'ref' or v.t is None or not st.objs:
            return None
        k = self.refkey(v.v)
        return st.objs.get(k) if k is not None else None

    def publish(self, st, v):
        """a fresh object escapes: move its model into the global arrays (and into the token for opaque consumers)"""
        if v.k == 'tuple':
            for e in v.v:
                self.publish(st, e)
            return
        if v.k == 'func':
            clo = v.v
            if clo.selfsv is not None:
                self.publish(st, clo.selfsv)
            return
        if v.k != 'ref' or not st.objs:
            return
        key = self.refkey(v.v)
        if key is not None and key in st.objs and st.objs[key].kind == 'kwdict':
            for x in st.objs[key].items.values():
                self.publish(st, x)
            return          # kwargs dicts are boxed by value
        o = st.objs.pop(key, None) if key is not None else None
        if o is None:
            return
        ref = v.v
        pub = fn('pub', Tok, R, R, Tok)
        if o.kind == 'list':
            st.arr['li'] = z3.Store(st.arr['li'], ref, o.seq)
            st.add(Z.klass(ref) == self.cls_const('list'))
            st.tok = pub(st.tok, ref, Z.box_tup(o.seq))
        elif o.kind == 'dict':
            for kk, vv in o.pending:
                self.publish(st, vv)
            st.arr['dv'] = z3.Store(st.arr['dv'], ref, o.vals)
            st.arr['dh'] = z3.Store(st.arr['dh'], ref, o.has)
            st.add(Z.klass(ref) == self.cls_const('dict'))
            st.tok = fn('pub_dict', Tok, R, Z.ArrRR, Z.ArrRB, Tok)(st.tok, ref, o.vals, o.has)
        elif o.kind == 'inst':
            st.add(Z.klass(ref) == self.cls_const(o.cls))
            st.add(Z.truthy_(ref) == True, z3.Not(Z.callable_(ref)) if not self.class_callable(o.cls) else Z.callable_(ref))
            for fname in sorted(o.fields):
                fv = o.fields[fname]
                self.publish(st, fv)
                b = self.box(st, fv)
                st.arr['at:' + fname] = z3.Store(st.attr_arr(fname), ref, b)
                st.tok = fn('pub_attr!' + fname, Tok, R, R, Tok)(st.tok, ref, b)
        elif o.kind == 'chainmap':
            self.publish(st, o.maps0)
            if o.parent is not None:
                self.publish(st, o.parent)
            st.add(fn('cm0', R, R)(ref) == o.maps0.v, fn('cmp', R, R)(ref) == (o.parent.v if o.parent is not None else Z.NONE),
                   Z.klass(ref) == self.cls_const('ChainMap'))
        else:
            raise Unsupported('publish ' + o.kind)

    def class_callable(self, cname):
        ci = self.repo.classes.get(cname)
        return bool(ci and self.repo.lookup_method(ci, '__call__'))

    # ---- opaque primitives -------------------------------------------------------------------------------------------
    def prim(self, st, name, args, raises=True, pure=False, result_tag=None, note=None):
        """user-world primitive: uninterpreted over (token, boxed args); returns outcomes"""
        for a in args:
            self.publish(st, a)
        terms = [self.box(st, a) for a in args]
        dom = [Tok] + [R] * len(terms)
        val = fn(name + '!val', *dom, R)(st.tok, *terms)
        tok2 = st.tok if pure else fn(name + '!tok', *dom, Tok)(st.tok, *terms)
        outs = []
        if raises:
            rs = fn(name + '!raises', *dom, B)(st.tok, *terms)
            exc = fn(name + '!exc', *dom, R)(st.tok, *terms)
            for s2, flag in self.split(st, rs):
                s2 = s2 if s2 is not st else st.fork()
                s2.tok = tok2
                s2.events.append((name, 'raise' if flag else 'ok'))
                if flag:
                    kt = Z.klass(exc)
                    s2.add(Z.subclass(kt, self.cls_const('BaseException')), exc != Z.NONE)
                    self.import_value(s2, exc)
                    outs.append(('raise', s2, sv_ref(exc)))
                else:
                    self.import_value(s2, val)
                    outs.append(('ok', s2, sv_ref(val, result_tag)))
        else:
            s2 = st.fork(); s2.tok = tok2
            s2.events.append((name, 'ok'))
            self.import_value(s2, val)
            outs.append(('ok', s2, sv_ref(val, result_tag)))
        return outs

    def import_value(self, st, term):
        """a value obtained from an opaque source cannot be one of our unescaped fresh objects"""
        for k in st.objs:
            st.add(term != const(k))

    def state_call(self, st, name, args, extra_state=()):
        """summary of a glom-level callee (recursive evaluator, functions under contract): uninterpreted over the whole
        modelled state (token + arrays) and the boxed arguments; returns new state components."""
        for a in args:
            self.publish(st, a)
        terms = [self.box(st, a) for a in args]
        ins = [st.tok, st.arr['li'], st.arr['dv'], st.arr['dh']]
        sorts = [Tok, Z.ArrRSeq, Z.ArrDV, Z.ArrDH] + [R] * len(terms)
        allin = ins + terms
        val = fn(name + '!val', *sorts, R)(*allin)
        rs = fn(name + '!raises', *sorts, B)(*allin)
        exc = fn(name + '!exc', *sorts, R)(*allin)
        tok2 = fn(name + '!tok', *sorts, Tok)(*allin)
        li2 = fn(name + '!li', *sorts, Z.ArrRSeq)(*allin)
        dv2 = fn(name + '!dv', *sorts, Z.ArrDV)(*allin)
        dh2 = fn(name + '!dh', *sorts, Z.ArrDH)(*allin)
        outs = []
        for s2, flag in self.split(st, rs):
            s2 = s2 if s2 is not st else st.fork()
            before = dict(s2.arr); tok_before = s2.tok
            s2.tok, s2.arr['li'], s2.arr['dv'], s2.arr['dh'] = tok2, li2, dv2, dh2
            s2.events.append((name, 'raise' if flag else 'ok'))
            hook = self.cfg.hooks.get('after_state_call')
            if flag:
                kt = Z.klass(exc)
                s2.add(Z.subclass(kt, self.cls_const('BaseException')), exc != Z.NONE)
                self.import_value(s2, exc)
                if hook:
                    hook(self, s2, name, args, terms, before, tok_before, 'raise', exc)
                outs.append(('raise', s2, sv_ref(exc)))
            else:
                self.import_value(s2, val)
                if hook:
                    hook(self, s2, name, args, terms, before, tok_before, 'ok', val)
                outs.append(('ok', s2, sv_ref(val)))
        return outs

    # ---- truthiness ---------------------------------------------------------------------------------------------------
    def truth(self, st, v):
        """-> list of (kind, st, z3 Bool) ; bool() of an opaque object is a user-level primitive that may raise"""
        k = v.k
        if k == 'bool':
            return [('ok', st, v.v)]
        if k == 'int':
            return [('ok', st, v.v != 0)]
        if k == 'none':
            return [('ok', st, z3.BoolVal(False))]
        if k == 'str':
            return [('ok', st, z3.Length(v.v) > 0)]
        if k == 'tuple':
            return [('ok', st, z3.BoolVal(len(v.v) > 0))]
        if k == 'seq':
            return [('ok', st, z3.Length(v.v) > 0)]
        if k in ('func', 'class', 'builtin', 'bound', 'module'):
            return [('ok', st, z3.BoolVal(True))]
        if k == 'ref':
            o = self.local(st, v)
            if o is not None:
                if o.kind == 'list':
                    return [('ok', st, z3.Length(o.seq) > 0)]
                if o.kind == 'kwdict':
                    return [('ok', st, z3.BoolVal(len(o.items) > 0))]
                if o.kind == 'dict':
                    return [('ok', st, o.count > 0)] if getattr(o, 'count', None) is not None else [('ok', st, z3.BoolVal(True))]
                return [('ok', st, z3.BoolVal(True))]
            if v.t == 'list':
                return [('ok', st, z3.Length(st.arr['li'][v.v]) > 0)]
            if v.t == 'dict':
                return [('ok', st, fn('dict_nonempty', Z.ArrRB, B)(st.arr['dh'][v.v]))]
            if v.t and (v.t.startswith('inst:') or v.t in ('chainmap',)):
                cname = v.t[5:]
                ci = self.repo.classes.get(cname)
                if ci is None or not (self.repo.lookup_method(ci, '__bool__') or self.repo.lookup_method(ci, '__len__')):
                    return [('ok', st, z3.BoolVal(True))]
            if v.t == 'boolish':     # result of a rich comparison: bool() of it is a pure user-level primitive
                res = []
                for kind, s3, r in self.prim(st, 'bool', [v], pure=True):
                    res.append(('ok', s3, r.v == Z.TRUE) if kind == 'ok' else (kind, s3, r))
                return res
            if v.t == 'simple':      # value known not to run user code on bool(): None / sentinel / str / int / tuple / glom object
                return [('ok', st, Z.truthy_(v.v))]
            # statically untyped reference: case split on the payload kinds whose truthiness is known, else opaque primitive
            res = []
            known = z3.Or(Z.is_int(v.v), Z.is_str(v.v), Z.is_tuple(v.v), v.v == Z.NONE, v.v == Z.TRUE, v.v == Z.FALSE,
                          *[v.v == const(n) for n in self.facts.singletons])
            for s2, flag in self.split(st, known):
                if flag:
                    s2.add(z3.Implies(Z.is_int(v.v), Z.truthy_(v.v) == (Z.intval(v.v) != 0)),
                           z3.Implies(Z.is_str(v.v), Z.truthy_(v.v) == (z3.Length(Z.strval(v.v)) > 0)),
                           z3.Implies(Z.is_tuple(v.v), Z.truthy_(v.v) == (z3.Length(Z.tupitems(v.v)) > 0)))
                    res.append(('ok', s2, Z.truthy_(v.v)))
                else:
                    for kind, s3, r in self.prim(s2, 'bool', [v], pure=True):
                        if kind == 'ok':
                            res.append(('ok', s3, r.v == Z.TRUE))
                        else:
                            res.append((kind, s3, r))
            return res
        raise Unsupported('truth of %r' % (v,))

    # ---- name resolution ------------------------------------------------------------------------------------------------
    def lookup(self, st, name, module, fid=None):
        fid = st.fid if fid is None else fid
        f = fid
        while f is not None:
            fr = st.frames[f]
            if name in fr:
                return fr[name]
            f = fr.get('$parent')
            f = f.v if f is not None else None
        return self.global_name(st, name, module)

    def global_name(self, st, name, module):
        if name in self.cfg.opaque_globals:
            return self.cfg.opaque_globals[name](st)
        if module in self.ref_modules:
            if name in self.ref_funcs:
                m, node = self.ref_funcs[name]
                return SV('func', Closure(node, m, None, name=name))
            # names imported from glom into reference modules resolve through the glom modules
            if name in self.ref_imports.get(module, {}):
                gm, gname = self.ref_imports[module][name]
                r = self._glom_global(st, gname, gm, strict=True)
                if r is not None:
                    return r
            for gm in ('core', 'matching', 'mutation', 'reduction', 'grouping', 'streaming', 'cli'):
                r = self._glom_global(st, name, gm, strict=True)
                if r is not None:
                    return r
            if name in self.ref_externs.get(module, {}):
                return SV('builtin', self.ref_externs[module][name])
        else:
            r = self._glom_global(st, name, module)
            if r is not None:
                return r
        if name in ('map', 'filter', 'imap', 'ifilter'):
            return SV('builtin', 'builtins.' + name.lstrip('i'))
        if name in BUILTIN_EXC or name in BUILTIN_TYPES:
            return SV('class', name)
        if name in BUILTIN_FUNCS:
            return SV('builtin', name)
        if name in ('True', 'False'):
            return sv_bool(name == 'True')
        if name in ('operator', 'itertools', 'copy', 'json', 'ast', 'sys', 'traceback', 'warnings', 're', 'os', 'glom', 'random'):
            return SV('module', name)
        raise Unsupported('unresolved name %s in %s' % (name, module))

    def _glom_global(self, st, name, module, strict=False):
        if name == 'bbrepr':
            return SV('builtin', 'bbrepr')
        canon = self.facts.canonical(module, name)
        if canon is None:
            return None
        kind, ident = canon
        if kind == 'singleton':
            if ident in ('T', 'S', 'A', '_T_STAR', '_T_STARSTAR'):
                return sv_ref(const(ident), 'inst:core.TType')
            scls = self.facts.singleton_class.get(ident)
            if scls == 'Sentinel' and self.facts.singleton_kind.get(ident) == 'sentinel':
                return sv_ref(const(ident), 'simple')
            if scls and scls in self.repo.classes:
                return sv_ref(const(ident), 'inst:' + scls)
            if scls == 'ChainMap':
                return sv_ref(const(ident), 'chainmap')
            return sv_ref(const(ident))
        if kind == 'class':
            return SV('class', ident)
        if kind == 'function':
            fi = self.repo.functions.get(ident)
            if fi is None:
                return SV('builtin', ident.split('.')[-1])
            return SV('func', Closure(fi.node, fi.module, None, name=ident, finfo=fi))
        if kind == 'builtin':
            return SV('builtin', ident)
        if kind == 'module':
            return SV('module', ident)
        if kind == 'extern':
            return SV('builtin', ident)
        if kind == 'const':
            v = ident
            if isinstance(v, bool):
                return sv_bool(v)
            if isinstance(v, int):
                return sv_int(v)
            if isinstance(v, str):
                return sv_str(v)
            if v is None:
                return NONE_SV
            if isinstance(v, tuple):
                return SV('tuple', [self._const_sv(x) for x in v])
        return None

    def _const_sv(self, v):
        if isinstance(v, bool):
            return sv_bool(v)
        if isinstance(v, int):
            return sv_int(v)
        if isinstance(v, str):
            return sv_str(v)
        if v is None:
            return NONE_SV
        if isinstance(v, type):
            return SV('class', v.__name__)
        raise Unsupported('const %r' % (v,))

    # ---- expressions -----------------------------------------------------------------------------------------------------
    def eval(self, e, st, module):
        m = getattr(self, 'e_' + type(e).__name__, None)
        if m is None:
            raise Unsupported('expression %s at line %s' % (type(e).__name__, getattr(e, 'lineno', '?')))
        return m(e, st, module)

    def eval_seq(self, exprs, st, module):
        """evaluate expressions left to right -> list of (kind, st, [SV...] | excSV)"""
        results = [('ok', st, [])]
        for e in exprs:
            nxt = []
            for kind, s, vals in results:
                if kind != 'ok':
                    nxt.append((kind, s, vals)); continue
                for k2, s2, v in self.eval(e, s, module):
                    if k2 == 'ok':
                        nxt.append(('ok', s2, vals + [v]))
                    else:
                        nxt.append((k2, s2, v))
            results = nxt
        return results

    def e_Constant(self, e, st, module):
        v = e.value
        if v is None:
            return [('ok', st, NONE_SV)]
        if isinstance(v, bool):
            return [('ok', st, sv_bool(v))]
        if isinstance(v, int):
            return [('ok', st, sv_int(v))]
        if isinstance(v, str):
            return [('ok', st, sv_str(v))]
        if isinstance(v, float):
            return [('ok', st, sv_ref(const('FLOAT_%s' % str(v).replace('.', '_').replace('-', 'm'))))]
        if isinstance(v, bytes):
            return [('ok', st, sv_ref(const('BYTES_%d' % abs(hash(v)))))]
        raise Unsupported('constant %r' % (v,))

    def e_Name(self, e, st, module):
        try:
            return [('ok', st, self.lookup(st, e.id, module))]
        except Unsupported:
            fnode = self.cur_func_node
            if fnode is not None and any(isinstance(x, ast.Name) and x.id == e.id and isinstance(x.ctx, ast.Store) for x in ast.walk(fnode)):
                # a local that is not bound on this path: Python raises UnboundLocalError (a NameError)
                return self.raise_builtin(st, 'NameError', [sv_str(e.id)])
            raise

    def e_Tuple(self, e, st, module):
        if any(isinstance(x, ast.Starred) for x in e.elts):
            return self._starred_tuple(e, st, module)
        return [(k, s, SV('tuple', v) if k == 'ok' else v) for k, s, v in self.eval_seq(e.elts, st, module)]

    def _starred_tuple(self, e, st, module):
        outs = []
        for k, s, vals in self.eval_seq([x.value if isinstance(x, ast.Starred) else x for x in e.elts], st, module):
            if k != 'ok':
                outs.append((k, s, vals)); continue
            parts = []
            static = True
            for x, v in zip(e.elts, vals):
                if isinstance(x, ast.Starred):
                    if v.k == 'tuple':
                        parts.extend(v.v)
                    else:
                        static = False
                        parts.append(('star', v))
                else:
                    parts.append(v)
            if static:
                outs.append(('ok', s, SV('tuple', parts)))
            else:
                seqs = []
                for p in parts:
                    if isinstance(p, tuple):
                        seqs.append(self.as_seq(s, p[1]))
                    else:
                        seqs.append(z3.Unit(self.box(s, p)))
                outs.append(('ok', s, SV('seq', z3.Concat(*seqs) if len(seqs) > 1 else seqs[0])))
        return outs

    def e_List(self, e, st, module):
        outs = []
        for k, s, vals in self.eval_seq(e.elts, st, module):
            if k != 'ok':
                outs.append((k, s, vals)); continue
            s = s.fork()
            for v in vals:
                self.publish_into(s, v)
            ref = self.alloc(s, 'list', Obj('list', seq=Z.seq_of([self.box(s, v) for v in vals])))
            outs.append(('ok', s, sv_ref(ref, 'list')))
        return outs

    def publish_into(self, st, v):
        """a value stored inside a container: nested fresh objects are published (kept simple: containers hold references)"""
        self.publish(st, v)

    def e_Dict(self, e, st, module):
        if any(k is None for k in e.keys):
            raise Unsupported('dict unpacking')
        outs = []
        for k, s, vals in self.eval_seq(list(itertools.chain.from_iterable(zip(e.keys, e.values))), st, module):
            if k != 'ok':
                outs.append((k, s, vals)); continue
            s = s.fork()
            outs.append(('ok', s, self.new_dict(s, list(zip(vals[0::2], vals[1::2])))))
        return outs

    def new_dict(self, st, pairs):
        vals = z3.K(R, Z.NONE)
        has = z3.K(R, z3.BoolVal(False))
        pend = []
        for kk, vv in pairs:
            kb = self.box(st, kk)
            pend.append((kk, vv))
            vals = z3.Store(vals, kb, self.box(st, vv) if self.local(st, vv) is None else vv.v)
            has = z3.Store(has, kb, z3.BoolVal(True))
        ref = self.alloc(st, 'dict', Obj('dict', vals=vals, has=has, pending=pend, count=None))
        return sv_ref(ref, 'dict')

    def e_Set(self, e, st, module):
        outs = []
        for k, s, vals in self.eval_seq(e.elts, st, module):
            if k != 'ok':
                outs.append((k, s, vals)); continue
            outs += self.prim(s, 'set_of', [SV('tuple', vals)])
        return outs

    def e_JoinedStr(self, e, st, module):
        # f-strings: an uninterpreted text function of the formatted values (pure, total: repr/str of values is assumed not to raise)
        exprs = [v.value for v in e.values if isinstance(v, ast.FormattedValue)]
        outs = []
        for k, s, vals in self.eval_seq(exprs, st, module):
            if k != 'ok':
                outs.append((k, s, vals)); continue
            s = s.fork()
            for v in vals:
                self.publish(s, v)
            terms = [self.box(s, v) for v in vals]
            import hashlib
            shape = ''.join(v.value if isinstance(v, ast.Constant) else '{%s%s}' % ('!' + chr(v.conversion) if v.conversion != -1 else '', '') for v in e.values)
            t = fn('fstr_' + hashlib.sha1(shape.encode()).hexdigest()[:10], *([R] * len(terms)), Z.S)(*terms) if terms else z3.StringVal(
                ''.join(v.value for v in e.values if isinstance(v, ast.Constant)))
            outs.append(('ok', s, SV('str', t)))
        return outs

    def e_Yield(self, e, st, module):
        # inside a generator body under contract: a yield is an observable event on the output stream, in program order
        outs = []
        vals = self.eval(e.value, st, module) if e.value is not None else [('ok', st, NONE_SV)]
        for kind, s, v in vals:
            if kind != 'ok':
                outs.append((kind, s, v)); continue
            for k2, s2, r in self.prim(s, 'yield', [v], raises=False):
                outs.append(('ok', s2, NONE_SV))
        return outs

    def e_Lambda(self, e, st, module):
        return [('ok', st, SV('func', Closure(e, module, st.fid)))]

    def e_IfExp(self, e, st, module):
        outs = []
        for kind, s, c in self.cond(e.test, st, module):
            if kind != 'ok':
                outs.append((kind, s, c)); continue
            for s2, flag in self.split(s, c):
                outs += self.eval(e.body if flag else e.orelse, s2, module)
        return outs

    def e_BoolOp(self, e, st, module):
        # value-returning and/or
        def go(idx, s):
            res = []
            for kind, s1, v in self.eval(e.values[idx], s, module):
                if kind != 'ok' or idx == len(e.values) - 1:
                    res.append((kind, s1, v)); continue
                for k2, s2, t in self.truth(s1, v):
                    if k2 != 'ok':
                        res.append((k2, s2, t)); continue
                    for s3, flag in self.split(s2, t):
                        stop = (not flag) if isinstance(e.op, ast.And) else flag
                        if stop:
                            res.append(('ok', s3, v))
                        else:
                            res += go(idx + 1, s3)
            return res
        return go(0, st)

    def e_UnaryOp(self, e, st, module):
        outs = []
        if isinstance(e.op, ast.Not):
            for kind, s, c in self.cond(e.operand, st, module):
                outs.append((kind, s, sv_bool(z3.Not(c)) if kind == 'ok' else c))
            return outs
        for kind, s, v in self.eval(e.operand, st, module):
            if kind != 'ok':
                outs.append((kind, s, v)); continue
            dm = self._inst_dunder(v, {'Invert': '__invert__', 'USub': '__neg__', 'UAdd': '__pos__'}.get(type(e.op).__name__))
            if dm is not None:
                outs += self.call(s, dm, _Args([], {}), module)
            elif v.k == 'int' and isinstance(e.op, ast.USub):
                outs.append(('ok', s, SV('int', -v.v)))
            elif v.k == 'int' and isinstance(e.op, ast.UAdd):
                outs.append(('ok', s, v))
            else:
                outs += self.prim(s, 'unary_' + type(e.op).__name__, [v])
        return outs

    BINOPS = {ast.Add: 'add', ast.Sub: 'sub', ast.Mult: 'mul', ast.FloorDiv: 'floordiv', ast.Div: 'truediv', ast.Mod: 'mod',
              ast.Pow: 'pow', ast.BitAnd: 'and', ast.BitOr: 'or', ast.BitXor: 'xor', ast.LShift: 'lshift', ast.RShift: 'rshift'}

    def e_BinOp(self, e, st, module):
        outs = []
        for kind, s, vals in self.eval_seq([e.left, e.right], st, module):
            if kind != 'ok':
                outs.append((kind, s, vals)); continue
            outs += self.binop(s, self.BINOPS[type(e.op)], vals[0], vals[1], e)
        return outs

    def _inst_dunder(self, v, dunder):
        """the method an operator resolves to on an instance of a class of the code under verification (ordinary dispatch along the MRO)"""
        if dunder and v.k == 'ref' and v.t and v.t.startswith('inst:'):
            ci = self.repo.classes.get(v.t[5:])
            if ci is not None:
                m = self.repo.lookup_method(ci, dunder)
                if m is not None:
                    return SV('func', Closure(m.node, m.module, None, name=m.name, selfsv=v, finfo=m, cls=m.cls.name))
        return None

    def binop(self, st, op, a, b, node=None):
        dm = self._inst_dunder(a, '__%s__' % op)
        if dm is not None:
            return self.call(st, dm, _Args([b], {}), dm.v.module)
        if a.k == 'int' and b.k == 'int':
            if op == 'add': return [('ok', st, SV('int', a.v + b.v))]
            if op == 'sub': return [('ok', st, SV('int', a.v - b.v))]
            if op == 'mul': return [('ok', st, SV('int', a.v * b.v))]
            if op in ('floordiv', 'mod'):
                res = []
                for s2, flag in self.split(st, b.v == 0):
                    if flag:
                        res += self.raise_builtin(s2, 'ZeroDivisionError', [sv_str('integer division or modulo by zero')])
                    else:
                        res.append(('ok', s2, SV('int', Z.py_floordiv(a.v, b.v) if op == 'floordiv' else Z.py_mod(a.v, b.v))))
                return res
        if op == 'add':
            if a.k in ('tuple', 'seq') and b.k in ('tuple', 'seq'):
                if a.k == 'tuple' and b.k == 'tuple':
                    return [('ok', st, SV('tuple', a.v + b.v))]
                sa, sb = self.as_seq(st, a), self.as_seq(st, b)
                return [('ok', st, SV('seq', z3.Concat(sa, sb)))]
            if a.k == 'str' and b.k == 'str':
                return [('ok', st, SV('str', z3.Concat(a.v, b.v)))]
            la, lb = self.list_seq(st, a), self.list_seq(st, b)
            if la is not None and lb is not None:
                s2 = st.fork()
                ref = self.alloc(s2, 'list', Obj('list', seq=z3.Concat(la, lb)))
                return [('ok', s2, sv_ref(ref, 'list'))]
        if op == 'mod' and a.k == 'str':
            # text formatting: uninterpreted pure text function of the arguments (repr of values assumed total)
            s2 = st.fork()
            self.publish(s2, b)
            t = fn('strfmt', Z.S, R, Z.S)(a.v, self.box(s2, b))
            return [('ok', s2, SV('str', t))]
        if op == 'mul' and a.k == 'tuple' and b.k == 'int':
            n = Z.concrete_int(b.v)
            if n is not None:
                return [('ok', st, SV('tuple', a.v * max(n, 0)))]
            if len(a.v) == 1:
                rep = fn('seq_repeat', R, I, SeqR)(self.box(st, a.v[0]), b.v)
                s2 = st.fork()
                s2.add(z3.Length(rep) == z3.If(b.v > 0, b.v, 0))
                s2.ghost.setdefault('repeats', []).append((rep, self.box(s2, a.v[0]), b.v))
                return [('ok', s2, SV('seq', rep))]
        if op == 'mul' and a.k == 'str' and b.k == 'int':
            return [('ok', st, SV('str', fn('str_repeat', Z.S, I, Z.S)(a.v, b.v)))]
        return self.prim(st, 'binop_' + op, [a, b])

    def as_seq(self, st, v):
        if v.k == 'seq':
            return v.v
        if v.k == 'tuple':
            return Z.seq_of([self.box(st, x) for x in v.v])
        if v.k == 'ref':
            ls = self.list_seq(st, v)
            if ls is not None:
                return ls
            st.add(Z.is_tuple(v.v))
            return Z.tupitems(v.v)
        raise Unsupported('as_seq %r' % (v,))

    def list_seq(self, st, v):
        if v.k != 'ref' or v.t != 'list':
            return None
        o = self.local(st, v)
        return o.seq if o is not None else st.arr['li'][v.v]

    # ---- conditions --------------------------------------------------------------------------------------------------------
    def cond(self, e, st, module):
        """-> list of (kind, st, z3 Bool | excSV)"""
        if isinstance(e, ast.BoolOp):
            def go(idx, s):
                res = []
                for kind, s1, c in self.cond(e.values[idx], s, module):
                    if kind != 'ok' or idx == len(e.values) - 1:
                        res.append((kind, s1, c)); continue
                    for s2, flag in self.split(s1, c):
                        stop = (not flag) if isinstance(e.op, ast.And) else flag
                        if stop:
                            res.append(('ok', s2, z3.BoolVal(flag)))
                        else:
                            res += go(idx + 1, s2)
                return res
            return go(0, st)
        if isinstance(e, ast.UnaryOp) and isinstance(e.op, ast.Not):
            return [(k, s, z3.Not(c) if k == 'ok' else c) for k, s, c in self.cond(e.operand, st, module)]
        outs = []
        for kind, s, v in self.eval(e, st, module):
            if kind != 'ok':
                outs.append((kind, s, v)); continue
            outs += self.truth(s, v)
        return outs

    def e_Compare(self, e, st, module):
        if len(e.ops) != 1:
            # chained comparison a < b < c : evaluate pairwise with short circuit (operands evaluated once)
            if len(e.ops) == 2:
                new = ast.BoolOp(op=ast.And(), values=[ast.Compare(left=e.left, ops=[e.ops[0]], comparators=[e.comparators[0]]),
                                                       ast.Compare(left=e.comparators[0], ops=[e.ops[1]], comparators=[e.comparators[1]])])
                ast.copy_location(new, e); ast.fix_missing_locations(new)
                return [(k, s, sv_bool(c) if k == 'ok' else c) for k, s, c in self.cond(new, st, module)]
            raise Unsupported('chained compare')
        outs = []
        for kind, s, vals in self.eval_seq([e.left, e.comparators[0]], st, module):
            if kind != 'ok':
                outs.append((kind, s, vals)); continue
            outs += self.compare(s, e.ops[0], vals[0], vals[1])
        return outs

    def compare(self, st, op, a, b):
        if isinstance(op, (ast.Is, ast.IsNot)):
            c = self.identical(st, a, b)
            return [('ok', st, sv_bool(c if isinstance(op, ast.Is) else z3.Not(c)))]
        if isinstance(op, (ast.In, ast.NotIn)):
            res = []
            for kind, s, c in self.contains(st, a, b):
                res.append((kind, s, sv_bool(c if isinstance(op, ast.In) else z3.Not(c)) if kind == 'ok' else c))
            return res
        if a.k == 'int' and b.k == 'int':
            f = {ast.Lt: lambda x, y: x < y, ast.LtE: lambda x, y: x <= y, ast.Gt: lambda x, y: x > y, ast.GtE: lambda x, y: x >= y,
                 ast.Eq: lambda x, y: x == y, ast.NotEq: lambda x, y: x != y}[type(op)]
            return [('ok', st, sv_bool(f(a.v, b.v)))]
        if isinstance(op, (ast.Eq, ast.NotEq)):
            res = []
            for kind, s, c in self.equals(st, a, b):
                res.append((kind, s, sv_bool(c if isinstance(op, ast.Eq) else z3.Not(c)) if kind == 'ok' else c))
            return res
        name = {ast.Lt: 'lt', ast.LtE: 'le', ast.Gt: 'gt', ast.GtE: 'ge'}[type(op)]
        if a.k == 'none' or b.k == 'none':
            return self.raise_builtin(st, 'TypeError', [sv_str('unorderable')])
        return self.prim(st, 'cmp_' + name, [a, b], result_tag='boolish')

    def identical(self, st, a, b):
        if a.k == 'none' and b.k == 'none':
            return z3.BoolVal(True)
        if a.k == 'bool' and b.k == 'bool':
            return a.v == b.v
        if a.k == 'class' and b.k == 'class':
            return z3.BoolVal(a.v == b.v)
        if a.k in ('func', 'builtin') and b.k in ('func', 'builtin'):
            return z3.BoolVal(a.k == b.k and (a.v is b.v or (a.k == 'builtin' and a.v == b.v) or
                                              (a.k == 'func' and a.v.name is not None and a.v.name == b.v.name)))
        return self.box(st, a) == self.box(st, b)

    def equals(self, st, a, b):
        """Python == : exact for ints/strings/None/statically known kinds; identity implies equality for references;
        otherwise a user-level primitive."""
        if a.k == 'str' and b.k == 'str':
            return [('ok', st, a.v == b.v)]
        if a.k == 'none' or b.k == 'none':
            other = b if a.k == 'none' else a
            if other.k in ('none',):
                return [('ok', st, z3.BoolVal(True))]
            if other.k in ('int', 'str', 'tuple', 'seq', 'bool'):
                return [('ok', st, z3.BoolVal(False))]
        if a.k in ('tuple', 'seq') and b.k in ('tuple', 'seq'):
            sa, sb = self.as_seq(st, a), self.as_seq(st, b)
            # tuple equality: element-wise ==; modelled by the uninterpreted pure relation seq_pyeq that contains identity
            t = fn('seq_pyeq', SeqR, SeqR, B)(sa, sb)
            st.add(z3.Implies(sa == sb, t), z3.Implies(z3.Length(sa) != z3.Length(sb), z3.Not(t)), t == fn('seq_pyeq', SeqR, SeqR, B)(sb, sa))
            return [('ok', st, t)]
        if a.k == 'str' or b.k == 'str':
            s_, o_ = (a, b) if a.k == 'str' else (b, a)
            if o_.k == 'ref':
                # comparing an arbitrary reference with a str constant: equal iff it is that string (str subclasses / custom
                # __eq__ on the other side are outside the model: assumption A-streq)
                return [('ok', st, z3.And(Z.is_str(o_.v), Z.strval(o_.v) == s_.v))]
            if o_.k in ('int', 'tuple', 'seq', 'none', 'bool'):
                return [('ok', st, z3.BoolVal(False))]
        if a.k == 'int' or b.k == 'int':
            i_, o_ = (a, b) if a.k == 'int' else (b, a)
            if o_.k == 'ref':
                res = []
                for s2, flag in self.split(st, Z.is_int(o_.v)):
                    if flag:
                        res.append(('ok', s2, Z.intval(o_.v) == i_.v))
                    else:
                        for kind, s3, r in self.prim(s2, 'cmp_eq', [a, b]):
                            res.append((kind, s3, (r.v == Z.TRUE) if kind == 'ok' else r))
                return res
        if a.k == 'class' and b.k == 'class':
            return [('ok', st, z3.BoolVal(a.v == b.v))]
        for x, y in ((a, b), (b, a)):
            if x.k == 'ref' and x.t and x.t.startswith('inst:'):
                ci = self.repo.classes.get(x.t[5:])
                m = self.repo.lookup_method(ci, '__eq__') if ci is not None else None
                if m is not None:
                    from .sym_call import Args
                    clo = Closure(m.node, m.module, None, name=m.name, selfsv=x, finfo=m, cls=m.cls.name)
                    res = []
                    for kind, s2, r in self.inline(st, clo, Args([y], {})):
                        if kind != 'ok':
                            res.append((kind, s2, r))
                        else:
                            res += self.truth(s2, r)
                    return res
        ta, tb = self.box(st, a), self.box(st, b)
        simple = lambda v: v.k != 'ref' or v.t == 'simple'
        if simple(a) and simple(b):
            return [('ok', st, ta == tb)]
        res = []
        for kind, s3, r in self.prim(st, 'cmp_eq', [a, b]):
            if kind != 'ok':
                res.append((kind, s3, r)); continue
            for k2, s4, c in self.truth(s3, sv_ref(r.v, 'boolish')):
                res.append((k2, s4, c))
        return res

    def contains(self, st, a, b):
        if b.k == 'tuple':
            # `x in (c1, c2, ...)`: identity-or-equality against each member, in order
            def go(i, s):
                if i == len(b.v):
                    return [('ok', s, z3.BoolVal(False))]
                res = []
                for kind, s1, c in self.equals(s, a, b.v[i]):
                    if kind != 'ok':
                        res.append((kind, s1, c)); continue
                    ident = self.identical(s1, a, b.v[i])
                    for s2, flag in self.split(s1, z3.Or(ident, c)):
                        if flag:
                            res.append(('ok', s2, z3.BoolVal(True)))
                        else:
                            res += go(i + 1, s2)
                return res
            return go(0, st)
        if b.k == 'str':
            if a.k == 'str':
                return [('ok', st, z3.Contains(b.v, a.v))]
            if a.k == 'ref':
                # `op in 'xX'` on a reference: substring test when it is a str, TypeError otherwise
                res = []
                for s2, flag in self.split(st, Z.is_str(a.v)):
                    if flag:
                        res.append(('ok', s2, z3.Contains(b.v, Z.strval(a.v))))
                    else:
                        res += self.raise_builtin(s2, 'TypeError', [sv_str("'in <string>' requires string as left operand")])
                return res
        if b.k == 'ref':
            o = self.local(st, b)
            if b.t == 'kwdict' and o is not None and a.k == 'str' and z3.is_string_value(z3.simplify(a.v)):
                return [('ok', st, z3.BoolVal(z3.simplify(a.v).as_string() in o.items))]
            if b.t == 'dict':
                kb = self.box(st, a)
                has = o.has if o is not None else st.arr['dh'][b.v]
                return [('ok', st, has[kb])]
            if b.t == 'chainmap':
                return [('ok', st, self.cm_has(st, b, self.box(st, a)))]
        if b.k == 'seq' and (a.k in ('str', 'int', 'none', 'class') or (a.k == 'ref' and a.t == 'simple')):
            # membership of a value whose == is identity (ints/strings/None/classes/sentinels) in a tuple of such values
            return [('ok', st, z3.Contains(b.v, z3.Unit(self.box(st, a))))]
        res = []
        for kind, s3, r in self.prim(st, 'contains', [b, a]):
            res.append((kind, s3, (r.v == Z.TRUE) if kind == 'ok' else r))
        return res

    # ---- exceptions -----------------------------------------------------------------------------------------------------------
    def raise_builtin(self, st, cname, args):
        s2 = st.fork()
        exc = self.new_instance_raw(s2, cname, {'args': SV('tuple', list(args))})
        return [('raise', s2, exc)]

    def new_instance_raw(self, st, cname, fields):
        ref = self.alloc(st, 'inst:' + cname, Obj('inst', cls=cname, fields=dict(fields)))
        st.add(Z.klass(ref) == self.cls_const(cname))
        return sv_ref(ref, 'inst:' + cname)

    def exc_class_term(self, st, exc):
        if exc.k == 'ref' and exc.t and exc.t.startswith('inst:'):
            return self.cls_const(exc.t[5:])
        t = Z.klass(self.box(st, exc))
        self.class_term_facts(st, t)
        return t

    def exc_matches(self, st, exc, typ_sv):
        """z3 Bool: isinstance(exc, typ) for an except clause"""
        kt = self.exc_class_term(st, exc)
        if typ_sv.k == 'class':
            return Z.subclass(kt, self.cls_const(typ_sv.v))
        if typ_sv.k == 'tuple':
            return z3.Or(*[self.exc_matches(st, exc, t) for t in typ_sv.v]) if typ_sv.v else z3.BoolVal(False)
        if typ_sv.k == 'ref':
            # a class (or tuple of classes) held in a variable, e.g. skip_exc
            t = typ_sv.v
            self.class_term_facts(st, kt)
            return fn('exc_matches', R, R, B)(kt, t)
        if typ_sv.k == 'seq':
            return fn('exc_matches', R, R, B)(kt, self.box(st, typ_sv))
        raise Unsupported('except type %r' % (typ_sv,))
