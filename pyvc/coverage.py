"""Statement coverage of the functions under contract by the symbolic executions (a vacuity guard).

A statement of a function under contract that no symbolic execution ever reached carries no obligation: a change to it cannot fail a
proof.  `unexecuted(repo, functions, seen)` lists those statements by their text (line independent)."""
import ast


def _stmts(node):
    """statements of a function body; bodies of nested defs / classes are not part of the function's own control flow"""
    out = []
    def walk(body):
        for st in body:
            if isinstance(st, ast.Expr) and isinstance(st.value, ast.Constant):
                continue
            out.append(st)
            for field in ('body', 'orelse', 'finalbody'):
                sub = getattr(st, field, None)
                if isinstance(sub, list) and not isinstance(st, (ast.FunctionDef, ast.AsyncFunctionDef, ast.ClassDef)):
                    walk(sub)
            for h in getattr(st, 'handlers', []) or []:
                walk(h.body)
            for c in getattr(st, 'cases', []) or []:
                walk(c.body)
    walk(node.body)
    return out


def unexecuted(repo, functions, seen):
    """-> {function name: [statement text, ...]} for statements never reached"""
    res = {}
    for name in sorted(functions):
        fi = repo.functions.get(name)
        if fi is None:
            continue
        miss = []
        for st in _stmts(fi.node):
            if (fi.module, st.lineno, st.col_offset) not in seen:
                text = ast.unparse(st).split('\n')[0]
                miss.append(text[:100])
        if miss:
            res[name] = miss
    return res
