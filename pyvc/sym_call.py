"""Executor part 3: calls (inlining, summaries, constructors, builtins, container methods)."""
import ast
import z3
from . import z as Z
from .z import fn, const, R, B, I, SeqR, Tok
from .sym import SV, NONE_SV, sv_int, sv_bool, sv_str, sv_ref, Closure, Obj, Unsupported


class Args:
    def __init__(self, pos, kw, star=None, dstar=None):
        self.pos, self.kw, self.star, self.dstar = pos, kw, star, dstar   # star: SV (dynamic *args) ; dstar: SV (dynamic **kw)

    def static(self):
        return self.star is None and self.dstar is None


class CallMixin:
    # ---- evaluating a call expression -----------------------------------------------------------------------------------
    def e_Call(self, e, st, module):
        f = e.func
        # the recursive evaluator: scope[glom](target, spec, scope)
        if isinstance(f, ast.Subscript) and isinstance(f.slice, ast.Name) and f.slice.id == 'glom' and len(e.args) == 3 and not e.keywords:
            outs = []
            for kind, s, vals in self.eval_seq([f.value] + list(e.args), st, module):
                if kind != 'ok':
                    outs.append((kind, s, vals)); continue
                outs += self.call_G(s, vals[0], vals[1], vals[2], vals[3])
            return outs
        if isinstance(f, ast.Name) and f.id == 'super' and False:
            pass
        exprs = [f]
        layout = []
        for a in e.args:
            if isinstance(a, ast.Starred):
                exprs.append(a.value); layout.append(('star', None))
            else:
                exprs.append(a); layout.append(('pos', None))
        for kw in e.keywords:
            exprs.append(kw.value); layout.append(('kw', kw.arg))
        outs = []
        for kind, s, vals in self.eval_seq(exprs, st, module):
            if kind != 'ok':
                outs.append((kind, s, vals)); continue
            fv, rest = vals[0], vals[1:]
            pos, kw, star, dstar = [], {}, None, None
            for (lk, name), v in zip(layout, rest):
                if lk == 'pos':
                    if star is not None:
                        raise Unsupported('positional after dynamic *args')
                    pos.append(v)
                elif lk == 'star':
                    if v.k == 'tuple':
                        pos.extend(v.v)
                    else:
                        lo = self.local(s, v)
                        if lo is not None and lo.kind == 'list' and Z.concrete_int(z3.Length(lo.seq)) is not None and False:
                            pass
                        star = v
                elif name is None:
                    o = self.local(s, v)
                    if o is not None and o.kind == 'kwdict':
                        kw.update(o.items)
                    else:
                        dstar = v
                else:
                    kw[name] = v
            outs += self.call(s, fv, Args(pos, kw, star, dstar), module, e)
        return outs

    def call_G(self, st, lookup_scope, target, spec, scope):
        hook = self.cfg.hooks.get('call_G')
        if hook:
            r = hook(self, st, lookup_scope, target, spec, scope)
            if r is not None:
                return r
        args = [target, spec, scope]
        if not (lookup_scope.k == 'ref' and scope.k == 'ref' and z3.eq(lookup_scope.v, scope.v)):
            args = [lookup_scope] + args
            return self.state_call(st, 'G4', args)
        return self.state_call(st, 'G', args)

    # ---- dispatch -----------------------------------------------------------------------------------------------------------
    def call(self, st, fv, args, module, node=None):
        k = fv.k
        if k == 'func':
            clo = fv.v
            if clo.name and clo.name in self.cfg.pure_models:
                return self.cfg.pure_models[clo.name](self, st, clo, args)
            if clo.name and clo.name in self.cfg.summaries:
                return self.call_summary(st, clo, args)
            return self.inline(st, clo, args)
        if k == 'class':
            return self.construct(st, fv.v, args, module)
        if k == 'builtin':
            return self.call_builtin(st, fv.v, args, module, node)
        if k == 'method':
            return self.call_method(st, fv.v[0], fv.v[1], args, module)
        if k == 'ref':
            for term, clo in st.ghost.get('$clo', ()):
                if z3.eq(term, fv.v):
                    return self.inline(st, clo, args)       # a closure we built ourselves, recovered from its boxed identity
            return self.call_opaque(st, fv, args)
        if k == 'bound':
            selfsv, meth = fv.v
            return self.call_method(st, selfsv, meth, args, module)
        raise Unsupported('call of %r' % (fv,))

    def box_args(self, st, args):
        for a in args.pos:
            self.publish(st, a)
        for a in args.kw.values():
            self.publish(st, a)
        if args.star is None:
            pos = Z.seq_of([self.box(st, a) for a in args.pos])
        else:
            self.publish(st, args.star)
            pos = z3.Concat(Z.seq_of([self.box(st, a) for a in args.pos]), self.iterable_seq(st, args.star)) if args.pos else self.iterable_seq(st, args.star)
        posb = self._box_seq(st, pos)
        kwpairs = []
        for name in args.kw:
            kwpairs.append(self._box_seq(st, Z.seq_of([self.box(st, sv_str(name)), self.box(st, args.kw[name])])))
        kwb = self._box_seq(st, Z.seq_of(kwpairs))
        if args.dstar is not None:
            self.publish(st, args.dstar)
            kwb = fn('kw_merge', R, R, R)(kwb, self.box(st, args.dstar))
        return posb, kwb

    def iterable_seq(self, st, v):
        """the finite sequence of items of an iterable used for *args unpacking (pure view)"""
        if v.k in ('tuple', 'seq'):
            return self.as_seq(st, v)
        ls = self.list_seq(st, v)
        if ls is not None:
            return ls
        return fn('items_of', Tok, R, SeqR)(st.tok, self.box(st, v))

    def call_opaque(self, st, fv, args):
        """calling a user callable / an object we know nothing about"""
        posb, kwb = self.box_args(st, args)
        return self.prim(st, 'call', [fv, sv_ref(posb), sv_ref(kwb)])

    def call_summary(self, st, clo, args):
        name = self.cfg.summaries[clo.name]
        pos = list(args.pos)
        if clo.selfsv is not None:
            pos = [clo.selfsv] + pos
        if not args.static():
            raise Unsupported('dynamic arguments to summarised callee ' + clo.name)
        # keyword arguments are normalised to the callee's parameter order
        params = [a.arg for a in clo.node.args.args]
        vals = dict(zip(params, pos))
        for kname, v in args.kw.items():
            vals[kname] = v
        defaults = clo.node.args.defaults
        for p, d in zip(params[len(params) - len(defaults):], defaults):
            if p not in vals:
                vals[p] = self.eval(d, st, clo.module)[0][2]
        ordered = [vals[p] for p in params if p in vals]
        tag = self.cfg.summary_result_tags.get(name)
        outs = self.state_call(st, name, ordered)
        if tag:
            outs = [(k, s, self.unbox(s, v.v, tag) if k == 'ok' else v) for k, s, v in outs]
        return outs

    # ---- inlining -------------------------------------------------------------------------------------------------------------
    def inline(self, st, clo, args, body_override=None):
        node = clo.node
        if st.depth > self.cfg.max_inline_depth:
            raise Unsupported('inline depth exceeded at %s' % (clo.name or node.lineno))
        if isinstance(node, ast.FunctionDef) and any(isinstance(n, (ast.Yield, ast.YieldFrom)) for n in ast.walk(node)) and not getattr(self, 'run_generators', False):
            # calling a generator function runs nothing: the result is a generator object determined by the function and its arguments
            s = st.fork()
            pos = list(args.pos)
            if clo.selfsv is not None:
                pos = [clo.selfsv] + pos
            if not args.static() or args.kw:
                raise Unsupported('generator call with dynamic / keyword arguments')
            for a in pos:
                self.publish(s, a)
            terms = [self.box(s, a) for a in pos]
            t = fn('gen!' + (clo.name or node.name), *([R] * len(terms)), R)(*terms)
            s.add(t != Z.NONE, z3.Not(Z.is_int(t)), z3.Not(Z.is_str(t)), z3.Not(Z.is_tuple(t)))
            return [('ok', s, sv_ref(t))]
        s = st.fork()
        caller = s.fid
        new = s.nframes
        s.nframes += 1
        frame = {}
        if clo.fid is not None:
            frame['$parent'] = SV('fid', clo.fid)
        frame['$caller'] = SV('fid', caller)
        frame['$class'] = SV('cname', clo.cls)
        a = node.args
        params = [p.arg for p in a.posonlyargs + a.args]
        pos = list(args.pos)
        if clo.selfsv is not None:
            pos = [clo.selfsv] + pos
        if args.star is not None:
            if len(pos) >= len(params) and a.vararg:
                pass
            else:
                raise Unsupported('dynamic *args into fixed parameters')
        bound = {}
        for p, v in zip(params, pos):
            bound[p] = v
        extra = pos[len(params):]
        if extra and not a.vararg:
            return self.raise_builtin(st, 'TypeError', [sv_str('too many positional arguments')])
        if a.vararg:
            if args.star is not None:
                seq = self.iterable_seq(s, args.star)
                if extra:
                    seq = z3.Concat(Z.seq_of([self.box(s, x) for x in extra]), seq)
                bound[a.vararg.arg] = SV('seq', seq)
            else:
                bound[a.vararg.arg] = SV('tuple', extra)
        kw = dict(args.kw)
        for p in params + [x.arg for x in a.kwonlyargs]:
            if p in kw:
                if p in bound:
                    return self.raise_builtin(st, 'TypeError', [sv_str('multiple values for argument')])
                bound[p] = kw.pop(p)
        if kw and not a.kwarg:
            return self.raise_builtin(st, 'TypeError', [sv_str('unexpected keyword argument')])
        if a.kwarg:
            if args.dstar is not None:
                raise Unsupported('dynamic **kwargs')
            ref = self.alloc(s, 'kwdict', Obj('kwdict', items=dict(kw)))
            bound[a.kwarg.arg] = sv_ref(ref, 'kwdict')
        # defaults
        defaults = a.defaults
        dparams = params[len(params) - len(defaults):] if defaults else []
        for p, d in zip(dparams, defaults):
            if p not in bound:
                r = self.eval(d, s, clo.module)
                if len(r) != 1 or r[0][0] != 'ok':
                    raise Unsupported('non-trivial default')
                bound[p] = r[0][2]
        for p, d in zip(a.kwonlyargs, a.kw_defaults):
            if p.arg not in bound and d is not None:
                bound[p.arg] = self.eval(d, s, clo.module)[0][2]
        missing = [p for p in params + [x.arg for x in a.kwonlyargs] if p not in bound]
        if missing:
            return self.raise_builtin(st, 'TypeError', [sv_str('missing required argument')])
        frame.update(bound)
        s.frames[new] = frame
        s.fid = new
        s.depth += 1
        saved_class = self.cur_class
        self.cur_class = clo.cls.split('.')[-1] if clo.cls else None
        try:
            if isinstance(node, ast.Lambda):
                outs = []
                for kind, s2, v in self.eval(node.body, s, clo.module):
                    outs.append(('ok' if kind == 'ok' else 'raise', s2, v))
            else:
                body = body_override if body_override is not None else node.body
                outs = []
                for o in self.exec_block(body, s, clo.module):
                    if o.kind == 'ret':
                        outs.append(('ok', o.st, o.val))
                    elif o.kind == 'fall':
                        outs.append(('ok', o.st, NONE_SV))
                    elif o.kind == 'raise':
                        outs.append(('raise', o.st, o.val))
                    else:
                        raise Unsupported('loop control escaping function')
        finally:
            self.cur_class = saved_class
        for kind, s2, v in outs:
            s2.fid = caller
            s2.depth -= 1
        return outs

    # ---- constructors ---------------------------------------------------------------------------------------------------------
    def construct(self, st, cname, args, module):
        ci = self.repo.classes.get(cname)
        if ci is not None:
            if cname in self.cfg.summaries:
                pos = list(args.pos)
                if not args.static():
                    raise Unsupported('dynamic args to summarised constructor ' + cname)
                init1 = self.repo.lookup_method(ci, '__init__')
                if args.kw:
                    params = [a.arg for a in init1.node.args.args][1:]
                    vals = dict(zip(params, pos))
                    vals.update(args.kw)
                    defaults = init1.node.args.defaults
                    for p_, d_ in zip(params[len(params) - len(defaults):], defaults):
                        if p_ not in vals:
                            vals[p_] = self.eval(d_, st, init1.module)[0][2]
                    pos = [vals[p_] for p_ in params if p_ in vals]
                outs = self.state_call(st, self.cfg.summaries[cname], pos)
                return [(k, s2, sv_ref(v.v, 'inst:' + cname) if k == 'ok' else v) for k, s2, v in outs]
            init0 = self.repo.lookup_method(ci, '__init__')
            can_inline = (init0 is not None and init0.node.args.vararg is not None and args.dstar is None and args.star is not None
                          and len(args.pos) + 1 >= len(init0.node.args.args) and cname in self.cfg.inline_star_ctors)
            if (not args.static() and not can_inline) or cname in self.cfg.pure_ctors:
                # constructor with dynamic *args / **kwargs: the new object is a pure function of the boxed arguments
                s = st.fork()
                posb, kwb = self.box_args(s, args)
                t = fn('new!' + cname.replace('.', '_'), R, R, R)(posb, kwb)
                s.add(Z.klass(t) == self.cls_const(cname), t != Z.NONE, z3.Not(Z.is_int(t)), z3.Not(Z.is_str(t)), z3.Not(Z.is_tuple(t)))
                return [('ok', s, sv_ref(t, 'inst:' + cname))]
            s = st.fork()
            fields = {}
            is_exc = cname in self.facts.class_names and self.facts.issub(cname, 'BaseException')
            if is_exc:
                if not args.static():
                    raise Unsupported('dynamic args to exception constructor')
                fields['args'] = SV('tuple', list(args.pos))
            inst = self.new_instance_raw(s, cname, fields)
            init = self.repo.lookup_method(ci, '__init__')
            if init is None:
                if (args.pos or args.kw) and not is_exc:
                    return self.raise_builtin(st, 'TypeError', [sv_str('takes no arguments')])
                return [('ok', s, inst)]
            clo = Closure(init.node, init.module, None, name=init.name, selfsv=inst, finfo=init, cls=init.cls.name)
            outs = []
            for kind, s2, v in self.inline(s, clo, args):
                outs.append((kind, s2, inst if kind == 'ok' else v))
            return outs
        if cname in self.facts.class_names and self.facts.issub(cname, 'BaseException'):
            if not args.static():
                raise Unsupported('dynamic args to exception constructor')
            s = st.fork()
            return [('ok', s, self.new_instance_raw(s, cname, {'args': SV('tuple', list(args.pos))}))]
        return self.call_builtin(st, cname, args, module, None)

    # ---- builtins ---------------------------------------------------------------------------------------------------------------
    def call_builtin(self, st, name, args, module, node):
        h = self.cfg.extern.get(name)
        if h is not None:
            r = h(self, st, args)
            if r is not None:          # a handler may decline (None): the generic modelling applies
                return r
        m = getattr(self, 'b_' + name.replace('.', '_'), None)
        if m is None:
            if '.' in name:
                # external library function (itertools, operator, json, boltons, ...): an opaque primitive named after it
                s2 = st.fork()
                posb, kwb = self.box_args(s2, args)
                return self.prim(s2, 'ext!' + name, [sv_ref(posb), sv_ref(kwb)])
            raise Unsupported('builtin %s' % name)
        return m(st, args)

    def b_len(self, st, args):
        v = args.pos[0]
        if v.k == 'tuple':
            return [('ok', st, sv_int(len(v.v)))]
        if v.k == 'seq':
            return [('ok', st, SV('int', z3.Length(v.v)))]
        if v.k == 'str':
            return [('ok', st, SV('int', z3.Length(v.v)))]
        ls = self.list_seq(st, v)
        if ls is not None:
            return [('ok', st, SV('int', z3.Length(ls)))]
        if v.k == 'ref' and v.t == 'kwdict':
            return [('ok', st, sv_int(len(self.local(st, v).items)))]
        if v.k == 'ref' and v.t in (None, 'simple'):
            res = []
            for s1, flag in self.split(st, Z.is_tuple(v.v)):
                if flag:
                    res.append(('ok', s1, SV('int', z3.Length(Z.tupitems(v.v)))))
                    continue
                for kind, s2, r in self.prim(s1, 'len', [v]):
                    if kind == 'ok':
                        s2.add(Z.is_int(r.v), Z.intval(r.v) >= 0)
                        res.append(('ok', s2, SV('int', Z.intval(r.v))))
                    else:
                        res.append((kind, s2, r))
            return res
        if False:
            res = []
            for kind, s2, r in self.prim(st, 'len', [v]):
                if kind == 'ok':
                    s2.add(Z.is_int(r.v), Z.intval(r.v) >= 0)
                    res.append(('ok', s2, SV('int', Z.intval(r.v))))
                else:
                    res.append((kind, s2, r))
            return res
        raise Unsupported('len of %r' % (v,))

    def class_ref(self, st, c):
        if c.k == 'class':
            return self.cls_const(c.v)
        if c.k == 'ref':
            return c.v
        if c.k == 'builtin':
            return const('CLS_' + c.v.replace('.', '_'))
        raise Unsupported('class ref %r' % (c,))

    def static_class(self, st, v):
        """-> class name if the class of value v is statically known"""
        if v.k == 'int': return 'int'
        if v.k == 'str': return 'str'
        if v.k == 'bool': return 'bool'
        if v.k == 'none': return 'NoneType'
        if v.k in ('tuple', 'seq'): return 'tuple'
        if v.k == 'slice': return 'slice'
        if v.k in ('func', 'builtin'): return 'function'
        if v.k == 'class': return 'type'
        if v.k == 'ref' and v.t:
            if v.t.startswith('inst:'): return v.t[5:]
            if v.t in ('list', 'dict'): return v.t
            if v.t == 'chainmap': return 'ChainMap'
            if v.t == 'kwdict': return 'dict'
        return None

    def isinstance_term(self, st, v, c):
        if c.k == 'tuple':
            return z3.Or(*[self.isinstance_term(st, v, x) for x in c.v]) if c.v else z3.BoolVal(False)
        sc = self.static_class(st, v)
        if c.k == 'class':
            if sc is not None:
                if sc == 'function':
                    return z3.BoolVal(c.v == 'object')
                if sc in self.facts.class_names and c.v in self.facts.class_names:
                    return z3.BoolVal(self.facts.issub(sc, c.v))
            if c.v == 'type' and sc is not None:
                return z3.BoolVal(sc == 'type')
        if sc is not None and sc in self.facts.class_names:
            kt = self.cls_const(sc)
        else:
            kt = Z.klass(self.box(st, v))
            self.class_term_facts(st, kt)
        if c.k == 'seq':
            return fn('exc_matches', R, R, B)(kt, self.box(st, c))
        cr = self.class_ref(st, c)
        if c.k == 'ref':
            return fn('exc_matches', R, R, B)(kt, cr)      # class or tuple of classes held in a variable
        return Z.subclass(kt, cr)

    def b_isinstance(self, st, args):
        return [('ok', st, sv_bool(self.isinstance_term(st, args.pos[0], args.pos[1])))]

    def b_issubclass(self, st, args):
        a, b = args.pos
        if b.k == 'tuple':
            return [('ok', st, sv_bool(z3.Or(*[Z.subclass(self.class_ref(st, a), self.class_ref(st, x)) for x in b.v])))]
        ta = self.class_ref(st, a)
        self.class_term_facts(st, ta)
        return [('ok', st, sv_bool(Z.subclass(ta, self.class_ref(st, b))))]

    def b_type(self, st, args):
        if len(args.pos) == 3:
            # type(name, bases, dict): dynamic class creation, an opaque library primitive (may raise, e.g. on an MRO conflict)
            s2 = st.fork()
            for a in args.pos:
                self.publish(s2, a)
            return self.prim(s2, 'ext!type3', list(args.pos))
        v = args.pos[0]
        sc = self.static_class(st, v)
        if sc is not None and sc != 'function':
            return [('ok', st, SV('class', sc))]
        kt = Z.klass(self.box(st, v))
        self.class_term_facts(st, kt)
        return [('ok', st, sv_ref(kt, 'simple'))]

    def b_callable(self, st, args):
        v = args.pos[0]
        if v.k in ('func', 'builtin', 'class', 'bound', 'method'):
            return [('ok', st, sv_bool(True))]
        if v.k in ('int', 'str', 'none', 'tuple', 'seq', 'bool'):
            return [('ok', st, sv_bool(False))]
        if v.k == 'ref' and v.t and v.t.startswith('inst:'):
            return [('ok', st, sv_bool(self.class_callable(v.t[5:])))]
        if v.k == 'ref' and v.t in ('list', 'dict', 'chainmap', 'kwdict'):
            return [('ok', st, sv_bool(False))]
        return [('ok', st, sv_bool(Z.callable_(self.box(st, v))))]

    def b_getattr(self, st, args):
        o, name = args.pos[0], args.pos[1]
        cname = z3.simplify(name.v) if name.k == 'str' else None
        if cname is not None and z3.is_string_value(cname):
            outs = self.getattr_(st, o, cname.as_string())
        else:
            outs = self.prim(st, 'getattr', [o, name])
        if len(args.pos) == 2:
            return outs
        default = args.pos[2]
        res = []
        for kind, s, v in outs:
            if kind == 'ok':
                res.append((kind, s, v)); continue
            m = self.exc_matches(s, v, SV('class', 'AttributeError'))
            for s2, flag in self.split(s, m):
                res.append(('ok', s2, default) if flag else ('raise', s2, v))
        return res

    def b_hasattr(self, st, args):
        res = []
        for kind, s, v in self.b_getattr(st, args):
            if kind == 'ok':
                res.append(('ok', s, sv_bool(True))); continue
            m = self.exc_matches(s, v, SV('class', 'AttributeError'))
            for s2, flag in self.split(s, m):
                res.append(('ok', s2, sv_bool(False)) if flag else ('raise', s2, v))
        return res

    def b_setattr(self, st, args):
        o, name, val = args.pos
        cname = z3.simplify(name.v) if name.k == 'str' else None
        if cname is not None and z3.is_string_value(cname) and o.k == 'ref' and o.t and o.t.startswith('inst:'):
            return self.setattr_(st, o, cname.as_string(), val)
        return [(k, s, NONE_SV if k == 'ok' else v) for k, s, v in self.prim(st, 'setattr', [o, name, val])]

    def b_delattr(self, st, args):
        o, name = args.pos
        return [(k, s, NONE_SV if k == 'ok' else v) for k, s, v in self.prim(st, 'delattr', [o, name])]

    def b_id(self, st, args):
        # id(x): an injective integer label of the reference (objects alive during a call have distinct ids)
        t = self.box(st, args.pos[0])
        return [('ok', st, sv_ref(fn('id_of', R, R)(t), 'simple'))]

    def b_hash(self, st, args):
        v = args.pos[0]
        if v.k in ('int', 'str', 'none', 'bool', 'class', 'func', 'builtin'):
            return [('ok', st, sv_ref(fn('hash_of', R, R)(self.box(st, v)), 'simple'))]
        return self.prim(st, 'hash', [v])

    def b_repr(self, st, args):
        s2 = st.fork()
        self.publish(s2, args.pos[0])
        return [('ok', s2, SV('str', fn('repr_of', Tok, R, Z.S)(s2.tok, self.box(s2, args.pos[0]))))]

    b_bbrepr = b_repr
    b_str = b_repr

    def b_print(self, st, args):
        s2 = st.fork()
        posb, kwb = self.box_args(s2, args)
        s2.tok = fn('print!tok', Tok, R, R, Tok)(s2.tok, posb, kwb)
        s2.events.append(('print',))
        return [('ok', s2, NONE_SV)]

    def b_tuple(self, st, args):
        if not args.pos:
            return [('ok', st, SV('tuple', []))]
        v = args.pos[0]
        if v.k in ('tuple', 'seq'):
            return [('ok', st, v)]
        ls = self.list_seq(st, v)
        if ls is not None:
            return [('ok', st, SV('seq', ls))]
        if v.k == 'ref' and v.t == 'iter':
            raise Unsupported('tuple() of iterator model')
        res = []
        for kind, s2, r in self.prim(st, 'tuple_of', [v]):
            if kind == 'ok':
                s2.add(Z.is_tuple(r.v))
                res.append(('ok', s2, SV('seq', Z.tupitems(r.v))))
            else:
                res.append((kind, s2, r))
        return res

    def b_list(self, st, args):
        s2 = st.fork()
        if not args.pos:
            return [('ok', s2, sv_ref(self.alloc(s2, 'list', Obj('list', seq=z3.Empty(SeqR))), 'list'))]
        v = args.pos[0]
        if v.k in ('tuple', 'seq') or self.list_seq(s2, v) is not None:
            seq = self.as_seq(s2, v)
            return [('ok', s2, sv_ref(self.alloc(s2, 'list', Obj('list', seq=seq)), 'list'))]
        res = []
        for kind, s3, r in self.prim(s2, 'list_of', [v]):
            if kind == 'ok':
                seq = fn('list_of!items', Tok, R, SeqR)(st.tok, self.box(s3, v))
                res.append(('ok', s3, sv_ref(self.alloc(s3, 'list', Obj('list', seq=seq)), 'list')))
            else:
                res.append((kind, s3, r))
        return res

    def b_dict(self, st, args):
        s2 = st.fork()
        if not args.pos and not args.kw:
            return [('ok', s2, self.new_dict(s2, []))]
        if len(args.pos) == 1 and not args.kw:
            v = args.pos[0]
            o = self.local(s2, v)
            if v.k == 'ref' and v.t == 'kwdict':
                if self.cfg.kwdict_copy_as_dict:
                    return [('ok', s2, self.new_dict(s2, [(sv_str(k), x) for k, x in o.items.items()]))]
                ref = self.alloc(s2, 'kwdict', Obj('kwdict', items=dict(o.items)))
                return [('ok', s2, sv_ref(ref, 'kwdict'))]
            if v.k == 'ref' and v.t in ('dict', 'chainmap'):
                if v.t == 'chainmap':
                    # dict(chain_map): flattened snapshot, defined by lookup
                    snap = fn('cm_snapshot_vals', Z.ArrDV, Z.ArrDH, R, Z.ArrRR)(s2.arr['dv'], s2.arr['dh'], v.v)
                    snaph = fn('cm_snapshot_has', Z.ArrDH, R, Z.ArrRB)(s2.arr['dh'], v.v)
                    s2.ghost.setdefault('snapshots', []).append((snap, snaph, v))
                    ref = self.alloc(s2, 'dict', Obj('dict', vals=snap, has=snaph, pending=[], count=None))
                    return [('ok', s2, sv_ref(ref, 'dict'))]
                vals, has = self.dict_rows(s2, v)
                ref = self.alloc(s2, 'dict', Obj('dict', vals=vals, has=has, pending=[], count=None))
                return [('ok', s2, sv_ref(ref, 'dict'))]
            res = []
            for kind, s3, r in self.prim(s2, 'dict_of', [v]):
                if kind == 'ok':
                    vals = fn('dict_of!vals', Tok, R, Z.ArrRR)(st.tok, self.box(s3, v))
                    has = fn('dict_of!has', Tok, R, Z.ArrRB)(st.tok, self.box(s3, v))
                    ref = self.alloc(s3, 'dict', Obj('dict', vals=vals, has=has, pending=[], count=None))
                    res.append(('ok', s3, sv_ref(ref, 'dict')))
                else:
                    res.append((kind, s3, r))
            return res
        raise Unsupported('dict(...) form')

    def b_OrderedDict(self, st, args):
        if args.pos or args.kw:
            return self.prim(st, 'ext!OrderedDict', list(args.pos))
        s2 = st.fork()
        return [('ok', s2, self.new_dict(s2, []))]

    def _dict_view(self, st, recv, what):
        s2 = st.fork()
        self.publish(s2, recv)
        return self.prim(s2, 'dict_' + what, [recv], raises=False, pure=True)

    def m_dict_items(self, st, recv, args):
        return self._dict_view(st, recv, 'items')

    def m_dict_keys(self, st, recv, args):
        return self._dict_view(st, recv, 'keys')

    def m_dict_values(self, st, recv, args):
        return self._dict_view(st, recv, 'values')

    def b_open(self, st, args):
        s2 = st.fork()
        posb, kwb = self.box_args(s2, args)
        return self.prim(s2, 'ext!open', [sv_ref(posb), sv_ref(kwb)])

    def b_ChainMap(self, st, args):
        s2 = st.fork()
        d = args.pos[0] if args.pos else self.new_dict(s2, [])
        if len(args.pos) > 1:
            raise Unsupported('ChainMap with several maps')
        if not (d.k == 'ref' and d.t == 'dict'):
            d = sv_ref(self.box(s2, d), 'dict')
        ref = self.alloc(s2, 'chainmap', Obj('chainmap', maps0=d, parent=None))
        return [('ok', s2, sv_ref(ref, 'chainmap'))]

    def b_int(self, st, args):
        v = args.pos[0]
        if v.k == 'int':
            return [('ok', st, v)]
        res = []
        for kind, s2, r in self.prim(st, 'int_of', [v], pure=False):
            if kind == 'ok':
                s2.add(Z.is_int(r.v))
                res.append(('ok', s2, SV('int', Z.intval(r.v))))
            else:
                res.append((kind, s2, r))
        return res

    def b_bool(self, st, args):
        return [(k, s, sv_bool(c) if k == 'ok' else c) for k, s, c in self.truth(st, args.pos[0])]

    def b_set(self, st, args):
        if not args.pos:
            return self.prim(st, 'set_new', [], raises=False)
        return self.prim(st, 'set_of', [args.pos[0]])

    b_frozenset = b_set

    def b_sorted(self, st, args):
        return self.prim(st, 'sorted', [args.pos[0]])

    def b_sum(self, st, args):
        return self.prim(st, 'sum', list(args.pos))

    def b_any(self, st, args):
        # any / all of an iterable: an opaque primitive of the (boxed) argument -- enough for relational proofs where both sides build the same list
        return self.prim(st, 'any', list(args.pos))

    def b_all(self, st, args):
        return self.prim(st, 'all', list(args.pos))

    def b_max(self, st, args):
        if len(args.pos) == 2 and all(a.k == 'int' for a in args.pos):
            a, b = args.pos
            return [('ok', st, SV('int', z3.If(a.v >= b.v, a.v, b.v)))]
        return self.prim(st, 'max', list(args.pos))

    def b_assume(self, st, args):
        """spec-only: restrict the statement to the paths on which the condition holds"""
        res = []
        for kind, s, c in self.truth(st, args.pos[0]):
            if kind != 'ok':
                continue
            s = s.fork(); s.add(c)
            if self.feasible(s):
                res.append(('ok', s, NONE_SV))
        return res

    def b_same(self, st, args):
        """spec-only: structural identity (sequences element-wise identical; references identical)"""
        a, b = args.pos
        if a.k in ('tuple', 'seq') or b.k in ('tuple', 'seq'):
            return [('ok', st, sv_bool(self.as_seq(st, a) == self.as_seq(st, b)))]
        return [('ok', st, sv_bool(self.identical(st, a, b)))]

    def b_as_dict(self, st, args):
        """spec-only: read a reference through the dict model of the heap (the clause is provable only if the heap holds a modelled dict there)"""
        v = args.pos[0]
        return [('ok', st, v if v.k == 'ref' and v.t in ('dict', 'kwdict') else sv_ref(self.box(st, v), 'dict'))]

    def b_as_list(self, st, args):
        """spec-only: read a reference through the list model of the heap"""
        v = args.pos[0]
        return [('ok', st, v if v.k == 'ref' and v.t == 'list' else sv_ref(self.box(st, v), 'list'))]

    def b_subseq(self, st, args):
        """spec-only: s[lo:hi] for 0 <= lo <= hi <= len(s) (no clamping)"""
        s_, lo, hi = args.pos
        return [('ok', st, SV('seq', z3.SubSeq(self.as_seq(st, s_), lo.v, hi.v - lo.v)))]

    def b_iter(self, st, args):
        return self.prim(st, 'iter', [args.pos[0]])

    def b_super(self, st, args):
        if len(args.pos) == 2 and args.pos[0].k == 'class' and args.pos[0].v in self.repo.classes:
            return [('ok', st, SV('super', (self.repo.classes[args.pos[0].v], args.pos[1])))]
        cname = st.env.get('$class')
        if cname is None or cname.v is None:
            raise Unsupported('super() outside method')
        ci = self.repo.classes[cname.v]
        selfsv = st.env[[k for k in st.env if not k.startswith('$')][0]]
        return [('ok', st, SV('super', (ci, selfsv)))]

    # ---- methods of modelled values -----------------------------------------------------------------------------------------------
    def call_method(self, st, recv, name, args, module):
        if recv.k == 'super':
            ci, selfsv = recv.v
            for c in self.repo.mro(ci)[1:]:
                if name in c.methods:
                    m = c.methods[name]
                    return self.call(st, SV('func', Closure(m.node, m.module, None, name=m.name, selfsv=selfsv, finfo=m, cls=c.name)), args, module)
            # builtin base (Exception.__init__): sets args
            if name == '__init__':
                s2 = st.fork()
                o = self.local(s2, selfsv)
                if o is not None:
                    o.fields['args'] = SV('tuple', list(args.pos))
                    return [('ok', s2, NONE_SV)]
                if selfsv.k == 'ref' and selfsv.t and selfsv.t.startswith('inst:') and not args.kw and args.star is None:
                    # self is a heap instance (constructor contract): BaseException.__init__ stores the positional arguments as .args
                    return self.setattr_(s2, selfsv, 'args', SV('tuple', list(args.pos)))
            if name == '__str__':
                return [('ok', st, SV('str', fn('exc_str', Tok, R, Z.S)(st.tok, self.box(st, selfsv))))]
            raise Unsupported('super().%s' % name)
        t = recv.t if recv.k == 'ref' else recv.k
        m = getattr(self, 'm_%s_%s' % (t, name), None)
        if m is None:
            raise Unsupported('method %s.%s' % (t, name))
        return m(st, recv, args)

    def m_list_append(self, st, recv, args):
        s2 = st.fork()
        self.publish_into_container(s2, recv, args.pos[0])
        vb = self.box(s2, args.pos[0])
        o = self.local(s2, recv)
        if o is not None:
            o.seq = z3.Concat(o.seq, z3.Unit(vb))
        else:
            s2.arr['li'] = z3.Store(s2.arr['li'], recv.v, z3.Concat(s2.arr['li'][recv.v], z3.Unit(vb)))
        return [('ok', s2, NONE_SV)]

    def m_list_extend(self, st, recv, args):
        v = args.pos[0]
        if v.k in ('tuple', 'seq') or self.list_seq(st, v) is not None:
            s2 = st.fork()
            seq = self.as_seq(s2, v)
            outs = [('ok', s2, seq)]
        else:
            outs = []
            for kind, s2, r in self.prim(st, 'list_of', [v]):
                outs.append((kind, s2, fn('list_of!items', Tok, R, SeqR)(st.tok, self.box(s2, v)) if kind == 'ok' else r))
        res = []
        for kind, s2, seq in outs:
            if kind != 'ok':
                res.append((kind, s2, seq)); continue
            o = self.local(s2, recv)
            if o is not None:
                o.seq = z3.Concat(o.seq, seq)
            else:
                s2.arr['li'] = z3.Store(s2.arr['li'], recv.v, z3.Concat(s2.arr['li'][recv.v], seq))
            res.append(('ok', s2, NONE_SV))
        return res

    def m_list_insert(self, st, recv, args):
        idx, v = args.pos
        if Z.concrete_int(idx.v) != 0:
            raise Unsupported('list.insert at non-zero index')
        s2 = st.fork()
        self.publish_into_container(s2, recv, v)
        vb = self.box(s2, v)
        o = self.local(s2, recv)
        if o is not None:
            o.seq = z3.Concat(z3.Unit(vb), o.seq)
        else:
            s2.arr['li'] = z3.Store(s2.arr['li'], recv.v, z3.Concat(z3.Unit(vb), s2.arr['li'][recv.v]))
        return [('ok', s2, NONE_SV)]

    def m_list_pop(self, st, recv, args):
        if args.pos:
            raise Unsupported('list.pop(i)')
        seq = self.list_seq(st, recv)
        res = []
        for s2, flag in self.split(st, z3.Length(seq) > 0):
            if not flag:
                res += self.raise_builtin(s2, 'IndexError', [sv_str('pop from empty list')]); continue
            seq2 = self.list_seq(s2, recv)
            n = z3.Length(seq2)
            val = seq2[n - 1]
            new = z3.SubSeq(seq2, 0, n - 1)
            o = self.local(s2, recv)
            if o is not None:
                o.seq = new
            else:
                s2.arr['li'] = z3.Store(s2.arr['li'], recv.v, new)
            res.append(('ok', s2, sv_ref(val)))
        return res

    # kwargs dicts with statically known keys
    def m_kwdict_pop(self, st, recv, args):
        key = args.pos[0]
        kname = z3.simplify(key.v).as_string()
        s2 = st.fork()
        o = self.local(s2, recv)
        if kname in o.items:
            return [('ok', s2, o.items.pop(kname))]
        if len(args.pos) > 1:
            return [('ok', s2, args.pos[1])]
        return self.raise_builtin(s2, 'KeyError', [key])

    def m_kwdict_get(self, st, recv, args):
        kname = z3.simplify(args.pos[0].v).as_string()
        o = self.local(st, recv)
        if kname in o.items:
            return [('ok', st, o.items[kname])]
        return [('ok', st, args.pos[1] if len(args.pos) > 1 else NONE_SV)]

    def m_kwdict_keys(self, st, recv, args):
        o = self.local(st, recv)
        return [('ok', st, SV('tuple', [sv_str(k) for k in o.items]))]

    def m_kwdict_items(self, st, recv, args):
        o = self.local(st, recv)
        return [('ok', st, SV('tuple', [SV('tuple', [sv_str(k), v]) for k, v in o.items.items()]))]

    # modelled dicts
    def m_dict_get(self, st, recv, args):
        kb = self.box(st, args.pos[0])
        vals, has = self.dict_rows(st, recv)
        default = args.pos[1] if len(args.pos) > 1 else NONE_SV
        res = []
        for s2, flag in self.split(st, has[kb]):
            res.append(('ok', s2, sv_ref(vals[kb]) if flag else default))
        return res

    def m_dict_update(self, st, recv, args):
        src = args.pos[0]
        s2 = st.fork()
        o = self.local(s2, src)
        if o is not None and o.kind == 'kwdict':
            for k, v in o.items.items():
                self.dict_store(s2, recv, sv_str(k), v)
            return [('ok', s2, NONE_SV)]
        if o is not None and o.kind == 'dict' and all(True for _ in o.pending):
            for k, v in o.pending:
                self.dict_store(s2, recv, k, v)
            return [('ok', s2, NONE_SV)]
        return self.dict_update_opaque(s2, recv, src)

    def dict_update_opaque(self, st, d, src):
        """d.update(src) with an unmodelled mapping: the rows of d become an uninterpreted merge of the old rows and src"""
        self.publish(st, src)
        sb = self.box(st, src)
        vals, has = self.dict_rows(st, d)
        nv = fn('upd_vals', Z.ArrRR, Tok, R, Z.ArrRR)(vals, st.tok, sb)
        nh = fn('upd_has', Z.ArrRB, Tok, R, Z.ArrRB)(has, st.tok, sb)
        st.ghost.setdefault('updates', []).append((vals, has, nv, nh, sb))
        o = self.local(st, d)
        if o is not None:
            o.vals, o.has = nv, nh
            o.pending = [p for p in o.pending] + [('$opaque', src)]
        else:
            st.arr['dv'] = z3.Store(st.arr['dv'], d.v, nv)
            st.arr['dh'] = z3.Store(st.arr['dh'], d.v, nh)
        return [('ok', st, NONE_SV)]

    # ChainMap scopes
    def m_chainmap_new_child(self, st, recv, args):
        s2 = st.fork()
        d = args.pos[0] if args.pos else self.new_dict(s2, [])
        ref = self.alloc(s2, 'chainmap', Obj('chainmap', maps0=d, parent=recv))
        return [('ok', s2, sv_ref(ref, 'chainmap'))]

    def m_chainmap_update(self, st, recv, args):
        s2 = st.fork()
        frame = self.cm_frame(s2, recv)
        return self.m_dict_update(s2, frame, args)

    def m_chainmap_setdefault(self, st, recv, args):
        # MutableMapping.setdefault: the existing binding found through the whole chain, else bind in maps[0]
        key = args.pos[0]
        default = args.pos[1] if len(args.pos) > 1 else NONE_SV
        kb = self.box(st, key)
        has, val = self.cm_lookup_terms(st, recv, kb)
        res = []
        for s2, flag in self.split(st, has):
            if flag:
                res.append(('ok', s2, self.unbox(s2, val, self.scope_key_tag(key))))
            else:
                s2 = s2.fork()
                self.dict_store(s2, self.cm_frame(s2, recv), key, default)
                res.append(('ok', s2, default))
        return res

    def m_dict_setdefault(self, st, recv, args):
        key = args.pos[0]
        default = args.pos[1] if len(args.pos) > 1 else NONE_SV
        kb = self.box(st, key)
        vals, has = self.dict_rows(st, recv)
        res = []
        for s2, flag in self.split(st, has[kb]):
            if flag:
                res.append(('ok', s2, sv_ref(vals[kb])))
            else:
                s2 = s2.fork()
                self.dict_store(s2, recv, key, default)
                res.append(('ok', s2, default))
        return res

    def m_chainmap_get(self, st, recv, args):
        kb = self.box(st, args.pos[0])
        has, val = self.cm_lookup_terms(st, recv, kb)
        default = args.pos[1] if len(args.pos) > 1 else NONE_SV
        res = []
        for s2, flag in self.split(st, has):
            res.append(('ok', s2, self.unbox(s2, val, self.scope_key_tag(args.pos[0])) if flag else default))
        return res

    # strings / tuples
    def m_str_startswith(self, st, recv, args):
        return [('ok', st, sv_bool(z3.PrefixOf(args.pos[0].v, recv.v)))]

    def m_str_format(self, st, recv, args):
        s2 = st.fork()
        posb, kwb = self.box_args(s2, args)
        return [('ok', s2, SV('str', fn('str_format', Z.S, R, R, Z.S)(recv.v, posb, kwb)))]

    def m_str_join(self, st, recv, args):
        s2 = st.fork()
        self.publish(s2, args.pos[0])
        return [('ok', s2, SV('str', fn('str_join', Z.S, Tok, R, Z.S)(recv.v, s2.tok, self.box(s2, args.pos[0]))))]

    def m_str_replace(self, st, recv, args):
        return [('ok', st, SV('str', fn('str_replace', Z.S, Z.S, Z.S, Z.S)(recv.v, args.pos[0].v, args.pos[1].v)))]

    def m_seq_count(self, st, recv, args):
        return [('ok', st, SV('int', fn('seq_count', SeqR, R, I)(self.as_seq(st, recv), self.box(st, args.pos[0]))))]

    m_tuple_count = m_seq_count
