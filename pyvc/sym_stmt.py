"""Executor part 4: statements, exception flow, loops (unrolling / summaries / invariants), comprehensions."""
import ast
import z3
from . import z as Z
from .z import fn, const, R, B, I, SeqR, Tok
from .sym import SV, NONE_SV, sv_int, sv_bool, sv_str, sv_ref, Closure, Obj, Out, Unsupported, NeedLoopContract


class IterState:
    def __init__(self, kind, **kw):
        self.kind = kind
        self.__dict__.update(kw)

    def clone(self, **kw):
        d = dict(self.__dict__); d.update(kw)
        k = d.pop('kind')
        return IterState(k, **d)


class StmtMixin:
    def exec_block(self, stmts, st, module):
        outs = [Out('fall', st)]
        for stmt in stmts:
            nxt = []
            for o in outs:
                if o.kind != 'fall':
                    nxt.append(o); continue
                nxt += self.exec_stmt(stmt, o.st, module)
            outs = nxt
            if not outs:
                break
        return outs

    def exec_stmt(self, stmt, st, module):
        if isinstance(stmt, ast.Expr) and isinstance(stmt.value, ast.Constant):
            return [Out('fall', st)]
        m = getattr(self, 's_' + type(stmt).__name__, None)
        if m is None:
            raise Unsupported('statement %s at line %s' % (type(stmt).__name__, stmt.lineno))
        if getattr(self, 'side', 'impl') != 'ref':
            seen = getattr(self, 'stmt_seen', None)
            if seen is not None:
                seen.add((module, stmt.lineno, stmt.col_offset))
        return m(stmt, st, module)

    def _lift(self, results, f):
        """results of eval -> outcomes; f(st, value) -> list[Out] for ok results"""
        outs = []
        for kind, s, v in results:
            if kind != 'ok':
                outs.append(Out('raise', s, v))
            else:
                outs += f(s, v)
        return outs

    def s_Pass(self, stmt, st, module):
        return [Out('fall', st)]

    def s_Expr(self, stmt, st, module):
        return self._lift(self.eval(stmt.value, st, module), lambda s, v: [Out('fall', s)])

    def _at(self, s, stmt):
        s = s.fork()
        s.events.append(('$line', stmt.lineno))
        return s

    def s_Return(self, stmt, st, module):
        if stmt.value is None:
            return [Out('ret', self._at(st, stmt), NONE_SV)]
        return self._lift(self.eval(stmt.value, st, module), lambda s, v: [Out('ret', self._at(s, stmt), v)])

    def s_Break(self, stmt, st, module):
        return [Out('break', st)]

    def s_Continue(self, stmt, st, module):
        return [Out('continue', st)]

    def s_FunctionDef(self, stmt, st, module):
        s = st.fork()
        s.env[stmt.name] = SV('func', Closure(stmt, module, s.fid, cls=(s.env.get('$class').v if s.env.get('$class') else None)))
        return [Out('fall', s)]

    def s_Assign(self, stmt, st, module):
        def fin(s, v):
            outs = [Out('fall', s.fork())]
            for tgt in stmt.targets:
                nxt = []
                for o in outs:
                    if o.kind != 'fall':
                        nxt.append(o); continue
                    nxt += self.assign(tgt, o.st, v, module)
                outs = nxt
            return outs
        return self._lift(self.eval(stmt.value, st, module), fin)

    def assign(self, tgt, st, v, module):
        if isinstance(tgt, ast.Name):
            st.env[tgt.id] = v
            return [Out('fall', st)]
        if isinstance(tgt, (ast.Tuple, ast.List)):
            parts = self.unpack(st, v, len(tgt.elts))
            outs = []
            for kind, s, vals in parts:
                if kind != 'ok':
                    outs.append(Out('raise', s, vals)); continue
                cur = [Out('fall', s)]
                for t, x in zip(tgt.elts, vals):
                    nxt = []
                    for o in cur:
                        nxt += self.assign(t, o.st, x, module) if o.kind == 'fall' else [o]
                    cur = nxt
                outs += cur
            return outs
        if isinstance(tgt, ast.Attribute):
            def fin(s, o):
                return [Out('fall' if k == 'ok' else 'raise', s2, None if k == 'ok' else r)
                        for k, s2, r in self.setattr_(s, o, self.mangle(tgt.attr, module), v)]
            return self._lift(self.eval(tgt.value, st, module), fin)
        if isinstance(tgt, ast.Subscript):
            outs = []
            for kind, s, vals in self.eval_seq([tgt.value, tgt.slice], st, module):
                if kind != 'ok':
                    outs.append(Out('raise', s, vals)); continue
                for k, s2, r in self.setitem(s, vals[0], vals[1], v):
                    outs.append(Out('fall' if k == 'ok' else 'raise', s2, None if k == 'ok' else r))
            return outs
        raise Unsupported('assignment target %s' % type(tgt).__name__)

    def unpack(self, st, v, n):
        if v.k == 'tuple':
            if len(v.v) != n:
                return [('raise', st, self.raise_builtin(st, 'ValueError', [sv_str('unpack')])[0][2])]
            return [('ok', st, list(v.v))]
        if v.k == 'seq':
            res = []
            for s2, flag in self.split(st, z3.Length(v.v) == n):
                if flag:
                    res.append(('ok', s2, [sv_ref(v.v[i]) for i in range(n)]))
                else:
                    res += [(k, s3, e) for k, s3, e in self.raise_builtin(s2, 'ValueError', [sv_str('unpack')])]
            return res
        if v.k == 'ref':
            ls = self.list_seq(st, v)
            if ls is not None:
                return self.unpack(st, SV('seq', ls), n)
            if z3.is_app(v.v) and v.v.decl().name() == 'py_box_tup':
                seq = v.v.arg(0)
                ln = Z.concrete_int(z3.Length(seq))
                if ln is not None:
                    if ln != n:
                        return [(k, s3, e) for k, s3, e in self.raise_builtin(st, 'ValueError', [sv_str('unpack')])]
                    return [('ok', st, [sv_ref(z3.simplify(seq[i])) for i in range(n)])]
            # opaque pair (e.g. an item of dict.items()): assumed to be an n-tuple when it is a tuple; else user-level iteration
            res = []
            for s2, flag in self.split(st, z3.And(Z.is_tuple(v.v), z3.Length(Z.tupitems(v.v)) == n)):
                if flag:
                    res.append(('ok', s2, [sv_ref(Z.tupitems(v.v)[i]) for i in range(n)]))
                else:
                    for kind, s3, r in self.prim(s2, 'unpack%d' % n, [v]):
                        if kind == 'ok':
                            s3.add(Z.is_tuple(r.v), z3.Length(Z.tupitems(r.v)) == n)
                            res.append(('ok', s3, [sv_ref(Z.tupitems(r.v)[i]) for i in range(n)]))
                        else:
                            res.append((kind, s3, r))
            return res
        raise Unsupported('unpack %r' % (v,))

    def setattr_(self, st, o, attr, v):
        if o.k == 'ref' and o.t and o.t.startswith('inst:'):
            lo = self.local(st, o)
            if lo is not None:
                lo.fields[attr] = v
                return [('ok', st, NONE_SV)]
            self.publish(st, v)
            st.arr['at:' + attr] = z3.Store(st.attr_arr(attr), o.v, self.box(st, v))
            st.events.append(('attr-store', attr))
            st.ghost.setdefault('attr_stores', []).append((o, attr))
            return [('ok', st, NONE_SV)]
        if o.k == 'class':
            key = '%s.%s' % (o.v, attr)
            st.arr['cls:' + key] = self.box(st, v)
            st.ghost.setdefault('attr_stores', []).append((o, attr))
            return [('ok', st, NONE_SV)]
        if o.k == 'ref':
            return [(k, s, NONE_SV if k == 'ok' else r) for k, s, r in self.prim(st, 'setattr', [o, sv_str(attr), v])]
        raise Unsupported('setattr on %r' % (o,))

    def setitem(self, st, o, key, v):
        if o.k == 'ref':
            if o.t == 'chainmap':
                self.dict_store(st, self.cm_frame(st, o), key, v)
                return [('ok', st, NONE_SV)]
            if o.t == 'dict':
                self.dict_store(st, o, key, v)
                return [('ok', st, NONE_SV)]
            if o.t == 'kwdict' and key.k == 'str' and z3.is_string_value(z3.simplify(key.v)):
                self.local(st, o).items[z3.simplify(key.v).as_string()] = v
                return [('ok', st, NONE_SV)]
            if o.t == 'list' and key.k == 'int':
                seq = self.list_seq(st, o)
                n = z3.Length(seq)
                res = []
                for s2, flag in self.split(st, z3.And(key.v >= -n, key.v < n)):
                    if not flag:
                        res += self.raise_builtin(s2, 'IndexError', [sv_str('list assignment index out of range')]); continue
                    self.publish_into_container(s2, o, v)
                    sq = self.list_seq(s2, o)
                    j = z3.If(key.v < 0, key.v + n, key.v)
                    new = z3.Concat(z3.SubSeq(sq, 0, j), z3.Unit(self.box(s2, v)), z3.SubSeq(sq, j + 1, n - j - 1))
                    lo = self.local(s2, o)
                    if lo is not None:
                        lo.seq = new
                    else:
                        s2.arr['li'] = z3.Store(s2.arr['li'], o.v, new)
                    res.append(('ok', s2, NONE_SV))
                return res
            if o.t in (None, 'simple'):
                return [(k, s, NONE_SV if k == 'ok' else r) for k, s, r in self.prim(st, 'setitem', [o, key, v])]
        raise Unsupported('setitem on %r' % (o,))

    def s_AugAssign(self, stmt, st, module):
        opname = self.BINOPS[type(stmt.op)]
        tgt = stmt.target
        if isinstance(tgt, ast.Name):
            def fin(s, v):
                cur = self.lookup(s, tgt.id, module)
                outs = []
                if cur.k == 'ref' and cur.t == 'list' and opname == 'add':
                    for k, s2, r in self.m_list_extend(s, cur, self._args([v])):
                        outs.append(Out('fall' if k == 'ok' else 'raise', s2, None if k == 'ok' else r))
                    return outs
                inplace = cur.k == 'ref' and cur.t in (None, 'simple')
                for k, s2, r in (self.prim(s, 'ibinop_' + opname, [cur, v]) if inplace else self.binop(s, opname, cur, v)):
                    if k == 'ok':
                        s2 = s2.fork(); s2.env[tgt.id] = r
                        outs.append(Out('fall', s2))
                    else:
                        outs.append(Out('raise', s2, r))
                return outs
            return self._lift(self.eval(stmt.value, st, module), fin)
        if isinstance(tgt, ast.Subscript):
            outs = []
            for kind, s, vals in self.eval_seq([tgt.value, tgt.slice, stmt.value], st, module):
                if kind != 'ok':
                    outs.append(Out('raise', s, vals)); continue
                o, key, v = vals
                for k1, s1, cur in self.getitem(s, o, key):
                    if k1 != 'ok':
                        outs.append(Out('raise', s1, cur)); continue
                    # scope[Path] += [...] : list concatenation producing the new binding (in-place extend of the bound list)
                    if cur.k == 'ref' and self.scope_key_tag(key) == 'list':
                        cur = sv_ref(cur.v, 'list')
                    if cur.k == 'ref' and cur.t == 'list' and opname == 'add':
                        for k2, s2, r in self.m_list_extend(s1, cur, self._args([v])):
                            if k2 != 'ok':
                                outs.append(Out('raise', s2, r)); continue
                            for k3, s3, r3 in self.setitem(s2, o, key, cur):
                                outs.append(Out('fall' if k3 == 'ok' else 'raise', s3, None if k3 == 'ok' else r3))
                        continue
                    for k2, s2, r in (self.binop(s1, opname, cur, v) if cur.k != 'ref' else self.prim(s1, 'ibinop_' + opname, [cur, v])):
                        if k2 != 'ok':
                            outs.append(Out('raise', s2, r)); continue
                        for k3, s3, r3 in self.setitem(s2, o, key, r):
                            outs.append(Out('fall' if k3 == 'ok' else 'raise', s3, None if k3 == 'ok' else r3))
            return outs
        raise Unsupported('augmented assignment target')

    def _args(self, pos, kw=None):
        from .sym_call import Args
        return Args(list(pos), dict(kw or {}))

    def s_Delete(self, stmt, st, module):
        outs = [Out('fall', st)]
        for tgt in stmt.targets:
            nxt = []
            for o in outs:
                if o.kind != 'fall':
                    nxt.append(o); continue
                nxt += self.delete(tgt, o.st, module)
            outs = nxt
        return outs

    def delete(self, tgt, st, module):
        if isinstance(tgt, ast.Subscript):
            if isinstance(tgt.slice, ast.Slice):
                sl = tgt.slice
                if sl.lower is None and sl.upper is None and sl.step is None:
                    def fin(s, o):
                        s = s.fork()
                        if o.k == 'ref' and (o.t == 'list' or o.t is None):
                            o = sv_ref(o.v, 'list')
                            lo = self.local(s, o)
                            if lo is not None:
                                lo.seq = z3.Empty(SeqR)
                            else:
                                s.arr['li'] = z3.Store(s.arr['li'], o.v, z3.Empty(SeqR))
                            return [Out('fall', s)]
                        raise Unsupported('del x[:] on %r' % (o,))
                    return self._lift(self.eval(tgt.value, st, module), fin)
                raise Unsupported('del slice')
            outs = []
            for kind, s, vals in self.eval_seq([tgt.value, tgt.slice], st, module):
                if kind != 'ok':
                    outs.append(Out('raise', s, vals)); continue
                o, key = vals
                if o.k == 'ref' and o.t == 'dict':
                    res = self.dict_delete(s, o, key)
                elif o.k == 'ref' and o.t == 'chainmap':
                    res = self.dict_delete(s, self.cm_frame(s, o), key)
                elif o.k == 'ref' and o.t in (None, 'simple'):
                    res = self.prim(s, 'delitem', [o, key])
                else:
                    raise Unsupported('del item on %r' % (o,))
                for k, s2, r in res:
                    outs.append(Out('fall' if k == 'ok' else 'raise', s2, None if k == 'ok' else r))
            return outs
        if isinstance(tgt, ast.Name):
            s = st.fork(); s.env.pop(tgt.id, None)
            return [Out('fall', s)]
        raise Unsupported('del target')

    def s_With(self, stmt, st, module):
        # `with E as f: body` : f is bound to the context value (enter = identity); leaving the block is an opaque exit event.
        # Exceptions in the body propagate after the same exit event (the managers used in glom -- open() -- do not swallow them).
        if len(stmt.items) != 1:
            raise Unsupported('with: several items')
        item = stmt.items[0]
        outs = []
        for kind, s, v in self.eval(item.context_expr, st, module):
            if kind != 'ok':
                outs.append(Out('raise', s, v)); continue
            s = s.fork()
            if item.optional_vars is not None:
                bound = self.assign(item.optional_vars, s, v, module)
            else:
                bound = [Out('fall', s)]
            for b in bound:
                if b.kind != 'fall':
                    outs.append(b); continue
                for o in self.exec_block(stmt.body, b.st, module):
                    for k2, s2, r in self.prim(o.st, 'ctx_exit', [v], raises=False):
                        outs.append(Out(o.kind, s2, o.val))
        return outs

    def s_Import(self, stmt, st, module):
        # an import inside a function body: may fail with ImportError; binds the module name
        outs = [Out('fall', st)]
        for al in stmt.names:
            nxt = []
            for o in outs:
                if o.kind != 'fall':
                    nxt.append(o); continue
                for k2, s2, r in self.prim(o.st, 'import!' + al.name, []):
                    if k2 == 'ok':
                        s2 = s2.fork()
                        s2.env[al.asname or al.name.split('.')[0]] = SV('module', al.name)
                        nxt.append(Out('fall', s2))
                    else:
                        s2.add(Z.subclass(Z.klass(r.v), self.cls_const('ImportError')))
                        nxt.append(Out('raise', s2, r))
            outs = nxt
        return outs

    def s_If(self, stmt, st, module):
        outs = []
        for kind, s, c in self.cond(stmt.test, st, module):
            if kind != 'ok':
                outs.append(Out('raise', s, c)); continue
            for s2, flag in self.split(s, c):
                if flag:
                    outs += self.exec_block(stmt.body, s2, module)
                elif stmt.orelse:
                    outs += self.exec_block(stmt.orelse, s2, module)
                else:
                    outs.append(Out('fall', s2))
        return outs

    def s_Raise(self, stmt, st, module):
        if stmt.exc is None:
            if not st.cur_exc:
                raise Unsupported('bare raise outside handler')
            return [Out('raise', self._at(st, stmt), st.cur_exc[-1])]
        def fin(s, v):
            if v.k == 'class':
                from .sym_call import Args
                return self._lift(self.construct(s, v.v, Args([], {}), module), lambda s2, e: [Out('raise', self._at(s2, stmt), e)])
            return [Out('raise', self._at(s, stmt), v)]
        return self._lift(self.eval(stmt.exc, st, module), fin)

    def s_Assert(self, stmt, st, module):
        outs = []
        for kind, s, c in self.cond(stmt.test, st, module):
            if kind != 'ok':
                outs.append(Out('raise', s, c)); continue
            for s2, flag in self.split(s, c):
                if flag:
                    outs.append(Out('fall', s2))
                else:
                    outs += [Out('raise', s3, e) for k, s3, e in self.raise_builtin(s2, 'AssertionError', [])]
        return outs

    def s_Try(self, stmt, st, module):
        outs = []
        for o in self.exec_block(stmt.body, st, module):
            if o.kind == 'raise':
                outs += self.handle(stmt, o.st, o.val, module)
            elif o.kind == 'fall' and stmt.orelse:
                outs += self.exec_block(stmt.orelse, o.st, module)
            else:
                outs.append(o)
        if stmt.finalbody:
            fin = []
            for o in outs:
                for f in self.exec_block(stmt.finalbody, o.st, module):
                    if f.kind == 'fall':
                        fin.append(Out(o.kind, f.st, o.val))
                    else:
                        fin.append(f)
            outs = fin
        return outs

    def handle(self, stmt, st, exc, module):
        outs = []
        rest = st
        for h in stmt.handlers:
            if rest is None:
                break
            if h.type is None:
                m = z3.BoolVal(True)
                pre = [('ok', rest, None)]
            else:
                pre = self.eval(h.type, rest, module)
            for kind, s, typ in pre:
                if kind != 'ok':
                    outs.append(Out('raise', s, typ)); rest = None; continue
                m = self.exc_matches(s, exc, typ) if typ is not None else z3.BoolVal(True)
                branches = self.split(s, m)
                rest = None
                for s2, flag in branches:
                    if flag:
                        s2 = s2.fork()
                        if h.name:
                            ev = exc
                            if exc.k == 'ref' and exc.t is None and typ is not None and typ.k == 'class' and typ.v in self.repo.classes:
                                ev = sv_ref(exc.v, 'inst:' + typ.v)      # isinstance established by the except clause
                            s2.env[h.name] = ev
                        s2.cur_exc.append(exc)
                        for o in self.exec_block(h.body, s2, module):
                            if o.st.cur_exc and o.st.cur_exc[-1] is exc:
                                o.st.cur_exc.pop()
                            outs.append(o)
                    else:
                        rest = s2
        if rest is not None:
            outs.append(Out('raise', rest, exc))
        return outs

    # ---- iteration protocol ------------------------------------------------------------------------------------------------------
    def iter_init(self, st, v):
        """-> list of (kind, st, IterState | exc)"""
        if v.k == 'tuple':
            return [('ok', st, IterState('static', items=list(v.v), idx=0))]
        if v.k == 'seq':
            n = Z.concrete_int(z3.Length(v.v))
            if n is not None and n <= 8:
                return [('ok', st, IterState('static', items=[sv_ref(z3.simplify(v.v[i])) for i in range(n)], idx=0))]
            return [('ok', st, IterState('seq', seq=v.v, idx=z3.IntVal(0)))]
        if v.k == 'iterstate':
            return [('ok', st, v.v)]
        if v.k == 'str':
            c = z3.simplify(v.v)
            if z3.is_string_value(c):        # iterating a literal string: its characters, one by one
                return [('ok', st, IterState('static', items=[sv_str(ch) for ch in c.as_string()], idx=0))]
        if v.k == 'ref':
            if v.t == 'list':
                return [('ok', st, IterState('list', ref=v, idx=z3.IntVal(0)))]
            if v.t == 'kwdict':
                return [('ok', st, IterState('static', items=[sv_str(k) for k in self.local(st, v).items], idx=0))]
            if v.t == 'dict':
                res = []
                for kind0, s0, view in self._dict_view(st, v, 'keys'):
                    for kind, s2, r in self.prim(s0, 'iter', [view]):
                        res.append((kind, s2, IterState('opaque', it=sv_ref(r.v, 'iter')) if kind == 'ok' else r))
                return res
            if v.t == 'iter':
                return [('ok', st, IterState('opaque', it=v))]
            if v.t in (None, 'simple'):
                res = []
                for kind, s2, r in self.prim(st, 'iter', [v]):
                    res.append((kind, s2, IterState('opaque', it=sv_ref(r.v, 'iter')) if kind == 'ok' else r))
                return res
        raise Unsupported('iteration over %r' % (v,))

    def iter_next(self, st, its):
        """-> list of (kind in item|stop|raise, st, value, its')"""
        k = its.kind
        if k == 'static':
            if its.idx < len(its.items):
                return [('item', st, its.items[its.idx], its.clone(idx=its.idx + 1))]
            return [('stop', st, None, its)]
        if k == 'seq':
            res = []
            for s2, flag in self.split(st, its.idx < z3.Length(its.seq)):
                if flag:
                    s2.add(its.idx >= 0)
                    val = its.seq[its.idx]
                    self.view_law(s2, its.seq, its.idx, val)
                    hook = self.cfg.hooks.get('seq_read')
                    if hook:
                        hook(self, s2, its.seq, its.idx, val)
                    res.append(('item', s2, sv_ref(val), its.clone(idx=its.idx + 1)))
                else:
                    res.append(('stop', s2, None, its))
            return res
        if k == 'list':
            res = []
            seq = self.list_seq(st, its.ref)
            for s2, flag in self.split(st, its.idx < z3.Length(seq)):
                if flag:
                    res.append(('item', s2, sv_ref(self.list_seq(s2, its.ref)[its.idx]), its.clone(idx=its.idx + 1)))
                else:
                    res.append(('stop', s2, None, its))
            return res
        if k == 'opaque':
            res = []
            for kind, s2, r in self.prim(st, 'next', [its.it]):
                if kind == 'ok':
                    res.append(('item', s2, r, its))
                else:
                    m = self.exc_matches(s2, r, SV('class', 'StopIteration'))
                    for s3, flag in self.split(s2, m):
                        res.append(('stop', s3, None, its) if flag else ('raise', s3, r, its))
            return res
        if k == 'enum':
            res = []
            for kind, s2, v, inner in self.iter_next(st, its.inner):
                if kind == 'item':
                    res.append(('item', s2, SV('tuple', [SV('int', its.count), v]), its.clone(inner=inner, count=its.count + 1)))
                else:
                    res.append((kind, s2, v, its.clone(inner=inner)))
            return res
        if k == 'range':
            res = []
            for s2, flag in self.split(st, its.i < its.n):
                res.append(('item', s2, SV('int', its.i), its.clone(i=its.i + 1)) if flag else ('stop', s2, None, its))
            return res
        if k == 'zip':
            res = []
            for kind, s2, a, ia in self.iter_next(st, its.a):
                if kind != 'item':
                    res.append((kind, s2, a, its.clone(a=ia))); continue
                for kind2, s3, b, ib in self.iter_next(s2, its.b):
                    if kind2 != 'item':
                        res.append((kind2, s3, b, its.clone(a=ia, b=ib)))
                    else:
                        res.append(('item', s3, SV('tuple', [a, b]), its.clone(a=ia, b=ib)))
            return res
        raise Unsupported('iterator kind ' + k)

    def b_enumerate(self, st, args):
        res = []
        for kind, s, its in self.iter_init(st, args.pos[0]):
            res.append((kind, s, SV('iterstate', IterState('enum', inner=its, count=z3.IntVal(0))) if kind == 'ok' else its))
        return res

    def b_range(self, st, args):
        if len(args.pos) == 1:
            return [('ok', st, SV('iterstate', IterState('range', i=z3.IntVal(0), n=args.pos[0].v)))]
        return [('ok', st, SV('iterstate', IterState('range', i=args.pos[0].v, n=args.pos[1].v)))]

    def b_zip(self, st, args):
        if all(a.k in ('seq', 'tuple') for a in args.pos) and any(a.k == 'seq' for a in args.pos) and len(args.pos) == 2:
            a, b = self.as_seq(st, args.pos[0]), self.as_seq(st, args.pos[1])
            t = fn('zip2', SeqR, SeqR, SeqR)(a, b)
            la, lb = z3.Length(a), z3.Length(b)
            st.add(z3.Length(t) == z3.If(la <= lb, la, lb))
            return [('ok', st, SV('seq', t))]
        res = []
        for k1, s1, ia in self.iter_init(st, args.pos[0]):
            if k1 != 'ok':
                res.append((k1, s1, ia)); continue
            for k2, s2, ib in self.iter_init(s1, args.pos[1]):
                res.append((k2, s2, SV('iterstate', IterState('zip', a=ia, b=ib)) if k2 == 'ok' else ib))
        return res

    def b_reversed(self, st, args):
        v = args.pos[0]
        if v.k == 'tuple':
            return [('ok', st, SV('tuple', list(reversed(v.v))))]
        ls = self.list_seq(st, v) if v.k == 'ref' else (v.v if v.k == 'seq' else None)
        if ls is not None:
            n = Z.concrete_int(z3.Length(ls))
            if n is not None:
                return [('ok', st, SV('tuple', [sv_ref(z3.simplify(ls[i])) for i in reversed(range(n))]))]
            rev = fn('seq_rev', SeqR, SeqR)(ls)
            st.add(z3.Length(rev) == z3.Length(ls))
            st.ghost.setdefault('revs', []).append((rev, ls))
            return [('ok', st, SV('seq', rev))]
        return self.prim(st, 'reversed', [v])

    # ---- loops ------------------------------------------------------------------------------------------------------------------------
    def loop_ordinal(self, node):
        fnode = self.cur_func_node
        key = id(fnode)
        if key not in self.loop_ord:
            loops = [n for n in ast.walk(fnode) if isinstance(n, (ast.For, ast.While, ast.ListComp, ast.DictComp, ast.SetComp, ast.GeneratorExp))]
            loops.sort(key=lambda n: (n.lineno, n.col_offset))
            self.loop_ord[key] = {id(n): i + 1 for i, n in enumerate(loops)}
        return self.loop_ord[key].get(id(node))

    def loop_contract(self, node):
        o = self.loop_ordinal(node)
        return self.cfg.loop_contracts.get((self.cur_func_name, o)), o

    def s_For(self, stmt, st, module):
        outs = []
        for kind, s, v in self.eval(stmt.iter, st, module):
            if kind != 'ok':
                outs.append(Out('raise', s, v)); continue
            for k2, s2, its in self.iter_init(s, v):
                if k2 != 'ok':
                    outs.append(Out('raise', s2, its)); continue
                bind = lambda s3, item: self.assign(stmt.target, s3, item, module)
                body = lambda s3: self.exec_block(stmt.body, s3, module)
                outs += self.run_loop(stmt, s2, module, its, bind, body, stmt.orelse)
        return outs

    def s_While(self, stmt, st, module):
        its = IterState('while', test=stmt.test)
        return self.run_loop(stmt, st, module, its, None, lambda s3: self.exec_block(stmt.body, s3, module), stmt.orelse)

    def loop_step(self, st, module, its, bind, body):
        """one trip through the loop head: -> list of (kind, st, payload, its') with kind in
        body-fall | continue | break | ret | raise | stop"""
        res = []
        if its.kind == 'while':
            for kind, s, c in self.cond(its.test, st, module):
                if kind != 'ok':
                    res.append(('raise', s, c, its)); continue
                for s2, flag in self.split(s, c):
                    if not flag:
                        res.append(('stop', s2, None, its)); continue
                    for o in body(s2):
                        res.append((o.kind, o.st, o.val, its))
            return res
        for kind, s, item, its2 in self.iter_next(st, its):
            if kind == 'stop':
                res.append(('stop', s, None, its2)); continue
            if kind == 'raise':
                res.append(('raise', s, item, its2)); continue
            s = s.fork()
            for b in bind(s, item):
                if b.kind != 'fall':
                    res.append((b.kind, b.st, b.val, its2)); continue
                for o in body(b.st):
                    res.append((o.kind, o.st, o.val, its2))
        return res

    def run_loop(self, node, st, module, its, bind, body, orelse):
        lc, ordinal = self.loop_contract(node)
        if lc is None:
            if its.kind == 'static' or (its.kind == 'enum' and its.inner.kind == 'static') or \
               (its.kind == 'zip' and its.a.kind == 'static' and its.b.kind == 'static') or \
               (its.kind == 'range' and Z.concrete_int(its.n - its.i) is not None and Z.concrete_int(its.n - its.i) <= 8):
                return self.unroll(node, st, module, its, bind, body, orelse, 0)
            if its.kind == 'while' and self.cfg.unroll_while.get((self.cur_func_name, ordinal)):
                return self.unroll(node, st, module, its, bind, body, orelse, 0, limit=self.cfg.unroll_while[(self.cur_func_name, ordinal)])
            raise NeedLoopContract('loop %s of %s (line %d) needs a contract' % (ordinal, self.cur_func_name, node.lineno))
        mode = lc['mode']
        if mode == 'summary' and its.kind == 'static' and len(its.items) - its.idx <= 16:
            return self.unroll(node, st, module, its, bind, body, orelse, 0)       # a statically known, short iteration is executed exactly
        if mode == 'summary':
            return self.loop_summary(node, st, module, its, bind, body, orelse, lc, ordinal)
        if mode == 'invariant':
            return self.loop_invariant(node, st, module, its, bind, body, orelse, lc, ordinal)
        raise Unsupported('loop mode ' + mode)

    def unroll(self, node, st, module, its, bind, body, orelse, n, limit=64):
        if n > limit:
            raise Unsupported('unrolling limit at line %d' % node.lineno)
        outs = []
        for kind, s, val, its2 in self.loop_step(st, module, its, bind, body):
            if kind in ('fall', 'continue'):
                outs += self.unroll(node, s, module, its2, bind, body, orelse, n + 1, limit)
            elif kind == 'break':
                outs.append(Out('fall', s))
            elif kind == 'stop':
                outs += self.exec_block(orelse, s, module) if orelse else [Out('fall', s)]
            else:
                outs.append(Out(kind, s, val))
        return outs

    # -- summaries (relational proofs): the loop is an uninterpreted transformer of its live state, justified by the
    #    body-equivalence obligations generated in verify.py
    def its_terms(self, st, its):
        k = its.kind
        if k == 'seq':
            return [self._box_seq(st, its.seq), Z.box_int(its.idx)]
        if k == 'list':
            return [its.ref.v, Z.box_int(its.idx)]
        if k == 'opaque':
            return [its.it.v]
        if k == 'enum':
            return self.its_terms(st, its.inner) + [Z.box_int(its.count)]
        if k == 'zip':
            return self.its_terms(st, its.a) + self.its_terms(st, its.b)
        if k == 'range':
            return [Z.box_int(its.i), Z.box_int(its.n)]
        if k == 'while':
            return []
        if k == 'static':
            return [self.box(st, x) for x in its.items[its.idx:]]
        raise Unsupported('its_terms ' + k)

    def loop_summary(self, node, st, module, its, bind, body, orelse, lc, ordinal):
        name = lc['name']
        s = st.fork()
        # completeness of the related-variable list: every local the loop reads or writes must be related
        declared = {v for v, _ in lc['vars']}
        used = set()
        parts = [node] if not isinstance(node, (ast.For, ast.While)) else ([node.target] if isinstance(node, ast.For) else [node.test]) + node.body
        if not isinstance(node, (ast.For, ast.While)):
            parts = [node.elt] if hasattr(node, 'elt') else [node.key, node.value]
            parts += [g.target for g in node.generators] + [t for g in node.generators for t in g.ifs]
        for pnode in parts:
            for x in ast.walk(pnode):
                if isinstance(x, ast.Name):
                    used.add(x.id)
        targets = self.assigned_names(parts)
        for nm in sorted(used):
            if nm in declared or nm in lc.get('locals', ()):
                continue
            if nm in targets and nm not in s.env and not self._visible(s, nm):
                continue      # loop-local temporary (assigned before use inside the body; checked by execution itself)
            if self._visible(s, nm):
                raise Unsupported('loop contract of %s is incomplete: local %r is used by the loop but not related' % (name, nm))
        if lc.get('inv'):
            self.check_clauses(s.fork(), lc['inv'], module, '%s::%s::inv-init' % (self.cur_func_name, name), lc)
        if getattr(self, 'loop_jobs', None) is not None and name not in self.loop_jobs:
            self.loop_jobs[name] = {'state': s.fork(), 'its': its, 'bind': bind, 'body': body, 'module': module, 'lc': lc,
                                    'func_node': self.cur_func_node, 'func_name': self.cur_func_name}
        vals = []
        for vname, tag in lc['vars']:
            if vname.startswith('='):
                v = NONE_SV if vname == '=None' else sv_ref(const(vname[1:]))
            else:
                v = self.lookup(s, vname, module) if self._visible(s, vname) else sv_ref(const('py_UNBOUND'))
            self.publish(s, v)
            vals.append(v)
        terms = [self.box(s, v) for v in vals] + self.its_terms(s, its)
        ins = [s.tok, s.arr['li'], s.arr['dv'], s.arr['dh']] + terms
        sorts = [Tok, Z.ArrRSeq, Z.ArrDV, Z.ArrDH] + [R] * len(terms)
        F = lambda suffix, sort: fn('%s!%s' % (name, suffix), *sorts, sort)(*ins)
        kindt = F('kind', I)     # 0 exhausted, 1 break, 2 return, 3 raise
        outs = []
        is_comp = not isinstance(node, (ast.For, ast.While))
        impossible = set()
        if is_comp:
            impossible = {1, 2}                         # a comprehension can only finish or raise
        else:
            # syntactic exclusion: without a `return` (resp. a `break` belonging to this loop) in the body that outcome cannot occur
            if not any(isinstance(x, ast.Return) for b in node.body for x in ast.walk(b)):
                impossible.add(2)
            def has_break(stmts):
                for b in stmts:
                    if isinstance(b, ast.Break):
                        return True
                    if isinstance(b, (ast.For, ast.While)):
                        if has_break(b.orelse):
                            return True
                        continue
                    for fld in ('body', 'orelse', 'finalbody', 'handlers'):
                        sub = getattr(b, fld, None)
                        if sub:
                            if fld == 'handlers':
                                if any(has_break(h.body) for h in sub):
                                    return True
                            elif has_break(sub):
                                return True
                return False
            if not has_break(node.body):
                impossible.add(1)
        if impossible:
            s.add(z3.And(*[kindt != c for c in impossible]))
        for code, label in ((0, 'stop'), (1, 'break'), (2, 'ret'), (3, 'raise')):
            if code in impossible:
                continue
            s2 = s.fork()
            s2.add(kindt == code)
            if not self.feasible(s2):
                continue
            s2.tok, s2.arr['li'], s2.arr['dv'], s2.arr['dh'] = F('tok', Tok), F('li', Z.ArrRSeq), F('dv', Z.ArrDV), F('dh', Z.ArrDH)
            s2.ghost['$loops'] = tuple(s2.ghost.get('$loops', ())) + (name,)
            for i, (vname, tag) in enumerate(lc['vars']):
                if vname in lc.get('readonly', ()) or vname.startswith('=') or vname not in targets:
                    continue      # never rebound by the loop (syntactically): the binding is unchanged (object contents live in the heap)
                if label in ('ret', 'raise'):
                    # locals are dead on these exits: a side-specific unconstrained value, so that any later use cannot be proved equal
                    nv = z3.Int('dead_%s_%s_%d' % (getattr(self, 'side', 'x'), name.replace('.', '_'), i))
                    self.set_var(s2, vname, sv_ref(nv))
                    continue
                else:
                    nv = F('var%d' % i, R)
                    self.import_value(s2, nv)
                self.set_var(s2, vname, self.unbox(s2, nv, tag))
            s2.events.append((name, label))
            if label == 'stop':
                outs += self.exec_block(orelse, s2, module) if orelse else [Out('fall', s2)]
            elif label == 'break':
                outs.append(Out('fall', s2))
            elif label == 'ret':
                outs.append(Out('ret', s2, sv_ref(F('retval', R))))
            else:
                exc = F('exc', R)
                kt = Z.klass(exc)
                s2.add(Z.subclass(kt, self.cls_const('BaseException')), exc != Z.NONE)
                outs.append(Out('raise', s2, sv_ref(exc)))
        return outs

    def _visible(self, st, name):
        f = st.fid
        while f is not None:
            fr = st.frames[f]
            if name in fr:
                return True
            p = fr.get('$parent')
            f = p.v if p is not None else None
        return False

    def set_var(self, st, name, v):
        f = st.fid
        while f is not None:
            fr = st.frames[f]
            if name in fr:
                fr[name] = v
                return
            p = fr.get('$parent')
            f = p.v if p is not None else None
        st.env[name] = v

    # -- invariants (assertional proofs)
    def assigned_names(self, nodes):
        names = set()
        for n in nodes:
            for x in ast.walk(n):
                if isinstance(x, ast.Name) and isinstance(x.ctx, (ast.Store, ast.Del)):
                    names.add(x.id)
        return names

    def havoc_value(self, st, name, v, tagname):
        if v.k == 'int':
            return SV('int', z3.Int('hv_%s_%s' % (tagname, name)))
        if v.k == 'bool':
            return SV('bool', z3.Bool('hv_%s_%s' % (tagname, name)))
        if v.k == 'str':
            return SV('str', z3.String('hv_%s_%s' % (tagname, name)))
        if v.k in ('seq', 'tuple'):
            return SV('seq', z3.Const('hv_%s_%s' % (tagname, name), SeqR))
        if v.k == 'none':
            return sv_ref(z3.Int('hv_%s_%s' % (tagname, name)))
        if v.k == 'ref':
            return sv_ref(z3.Int('hv_%s_%s' % (tagname, name)), v.t)
        return v

    def loop_invariant(self, node, st, module, its, bind, body, orelse, lc, ordinal):
        tagname = '%s_l%d' % (self.cur_func_name.replace('.', '_'), ordinal)
        label = '%s::loop%d' % (self.cur_func_name, ordinal)
        ghost = lc.get('ghost')
        # 1. invariant holds on entry
        s0 = st.fork()
        if ghost:
            s0.env[ghost] = sv_int(0)
        # 2. arbitrary iteration
        h = st.fork()
        modified = self.assigned_names(node.body if not isinstance(node, ast.While) else node.body)
        if isinstance(node, ast.For):
            modified |= self.assigned_names([node.target])
        for name in sorted(modified):
            if name in s0.env and self.local(s0, s0.env[name]) is not None:
                self.publish(s0, s0.env[name])
                self.publish(h, h.env[name])
        for name in sorted(modified):
            if name in h.env:
                cur = h.env[name]
                if self.local(h, cur) is not None:
                    self.publish(h, cur)
                h.env[name + '__entry'] = cur
                s0.env[name + '__entry'] = cur
                h.env[name] = self.havoc_value(h, name, cur, tagname)
        self.check_clauses(s0, lc['invariant'], module, label + '::init', lc)
        for name, tag in lc.get('havoc_types', {}).items():
            h.env[name] = self.unbox(h, z3.Int('hv_%s_%s' % (tagname, name)), tag)
        if not lc.get('pure'):
            h.tok = z3.Const('hv_%s_tok' % tagname, Tok)
            for a in ('li', 'dv', 'dh'):
                h.arr[a] = z3.Const('hv_%s_%s' % (tagname, a), h.arr[a].sort())
        for key, o in h.objs.items():
            if o.kind == 'list' and key in lc.get('havoc_lists', ()):
                o.seq = z3.Const('hv_%s_%s' % (tagname, key), SeqR)
        its_h = its
        j = z3.Int('hv_%s_j' % tagname)
        if its.kind in ('seq', 'list'):
            its_h = its.clone(idx=j)
            h.add(j >= 0)
        elif its.kind == 'enum' and its.inner.kind in ('seq', 'list'):
            its_h = its.clone(inner=its.inner.clone(idx=j), count=j)
            h.add(j >= 0)
        elif its.kind == 'range':
            its_h = its.clone(i=j)
            h.add(j >= its.i)
        if ghost:
            h.env[ghost] = SV('int', j)
        heads = self.assume_clauses(h, lc['invariant'], module)
        outs = []
        for hs in heads:
            for kind, s, val, its2 in self.loop_step(hs, module, its_h, bind, body):
                if kind in ('fall', 'continue'):
                    s = s.fork()
                    if ghost:
                        s.env[ghost] = SV('int', j + 1)
                    self.check_clauses(s, lc['invariant'], module, '%s::preserved[%s]' % (label, kind), lc)
                elif kind == 'break':
                    outs.append(Out('fall', s))
                elif kind == 'stop':
                    outs += self.exec_block(orelse, s, module) if orelse else [Out('fall', s)]
                else:
                    outs.append(Out(kind, s, val))
        return outs

    def last_line(self, st, node):
        return node.lineno

    def check_clauses(self, st, clauses, module, name, lc=None):
        for i, text in enumerate(clauses):
            expr = self.parse_clause(text)
            for kind, s, c in self.cond(expr, st.fork(), self.clause_module(module)):
                goal = c if kind == 'ok' else z3.BoolVal(False)
                self.obligations.append({'name': '%s#%d' % (name, i + 1), 'clause': text, 'pc': list(s.pc), 'goal': goal,
                                         'func': self.cur_func_name, 'ghost': dict(s.ghost)})

    def assume_clauses(self, st, clauses, module):
        states = [st]
        for text in clauses:
            expr = self.parse_clause(text)
            nxt = []
            for s in states:
                for kind, s2, c in self.cond(expr, s, self.clause_module(module)):
                    if kind != 'ok':
                        continue
                    s2 = s2.fork(); s2.add(c)
                    if self.feasible(s2):
                        nxt.append(s2)
            states = nxt
        return states

    def parse_clause(self, text):
        if not hasattr(self, '_clause_cache'):
            self._clause_cache = {}
        if text not in self._clause_cache:
            self._clause_cache[text] = ast.parse(text, mode='eval').body
        return self._clause_cache[text]

    def clause_module(self, module):
        return self.cfg.clause_module or module

    # ---- comprehensions ----------------------------------------------------------------------------------------------------------------
    def e_ListComp(self, e, st, module):
        return self.comprehension(e, st, module, 'list')

    def e_GeneratorExp(self, e, st, module):
        return self.comprehension(e, st, module, 'list')     # consumed eagerly by the callers in glom (join / tuple / sorted)

    def e_DictComp(self, e, st, module):
        return self.comprehension(e, st, module, 'dict')

    def e_SetComp(self, e, st, module):
        return self.comprehension(e, st, module, 'set')

    def comprehension(self, e, st, module, kind):
        if len(e.generators) != 1:
            raise Unsupported('nested comprehension')
        g = e.generators[0]
        outs = []
        for k0, s0, src in self.eval(g.iter, st, module):
            if k0 != 'ok':
                outs.append((k0, s0, src)); continue
            for k1, s1, its in self.iter_init(s0, src):
                if k1 != 'ok':
                    outs.append((k1, s1, its)); continue
                s1 = s1.fork()
                # comprehension scope: a child frame whose free variables resolve in the enclosing one
                caller = s1.fid
                new = s1.nframes; s1.nframes += 1
                s1.frames[new] = {'$parent': SV('fid', caller), '$class': s1.env.get('$class') or SV('cname', None)}
                if kind == 'list':
                    acc = sv_ref(self.alloc(s1, 'list', Obj('list', seq=z3.Empty(SeqR))), 'list')
                elif kind == 'dict':
                    acc = self.new_dict(s1, [])
                else:
                    accs = self.prim(s1, 'set_new', [], raises=False)
                    s1, acc = accs[0][1], accs[0][2]
                    s1.frames[new] = {'$parent': SV('fid', caller), '$class': SV('cname', None)}
                s1.frames[new]['$acc'] = acc
                s1.fid = new
                def bind(s3, item, g=g):
                    return self.assign(g.target, s3, item, module)
                def body(s3, g=g, e=e):
                    res = []
                    states = [s3]
                    for test in g.ifs:
                        nxt = []
                        for sx in states:
                            for kk, sy, c in self.cond(test, sx, module):
                                if kk != 'ok':
                                    res.append(Out('raise', sy, c)); continue
                                for sz, flag in self.split(sy, c):
                                    if flag:
                                        nxt.append(sz)
                                    else:
                                        res.append(Out('continue', sz))
                        states = nxt
                    for sx in states:
                        if kind == 'dict':
                            for kk, sy, vals in self.eval_seq([e.key, e.value], sx, module):
                                if kk != 'ok':
                                    res.append(Out('raise', sy, vals)); continue
                                sy = sy.fork()
                                self.dict_store(sy, sy.env['$acc'], vals[0], vals[1])
                                res.append(Out('fall', sy))
                        else:
                            for kk, sy, v in self.eval(e.elt, sx, module):
                                if kk != 'ok':
                                    res.append(Out('raise', sy, v)); continue
                                if kind == 'list':
                                    for k2, sz, r in self.m_list_append(sy, sy.env['$acc'], self._args([v])):
                                        res.append(Out('fall', sz))
                                else:
                                    for k2, sz, r in self.prim(sy, 'set_add', [sy.env['$acc'], v]):
                                        res.append(Out('fall' if k2 == 'ok' else 'raise', sz, None if k2 == 'ok' else r))
                    return res
                for o in self.run_loop(e, s1, module, its, bind, body, None):
                    accv = o.st.frames[new].get('$acc', acc)
                    o.st.fid = caller
                    if o.kind == 'fall':
                        outs.append(('ok', o.st, accv))
                    elif o.kind == 'raise':
                        outs.append(('raise', o.st, o.val))
                    else:
                        raise Unsupported('comprehension outcome ' + o.kind)
        return outs
