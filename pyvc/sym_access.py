"""Executor part 2: attribute access, subscripts, modelled containers (lists, dicts, ChainMap scopes)."""
import ast
import z3
from . import z as Z
from .z import fn, const, R, B, I, SeqR, Tok
from .sym import SV, NONE_SV, sv_int, sv_bool, sv_str, sv_ref, Closure, Obj, Unsupported

cm0 = fn('cm0', R, R)       # ChainMap.maps[0]
cmp_ = fn('cmp', R, R)      # the ChainMap formed by maps[1:]  (None when there is a single map)


class AccessMixin:
    # ---- attribute reads ------------------------------------------------------------------------------------------------
    def field_tag(self, cname, attr):
        ft = self.cfg.field_types
        for key in ('%s.%s' % (cname, attr), attr):
            if key in ft:
                return ft[key]
        return None

    def e_Attribute(self, e, st, module):
        outs = []
        for kind, s, v in self.eval(e.value, st, module):
            if kind != 'ok':
                outs.append((kind, s, v)); continue
            outs += self.getattr_(s, v, self.mangle(e.attr, module), module)
        return outs

    def note_heap_read(self, st, attr):
        """an attribute read through the heap arrays after summarised loops: a summary leaves the attribute arrays as they were before the
        loop, which is only right if the loop does not store that attribute -- recorded here, checked in verify.py (loop frame guard)"""
        for ln in st.ghost.get('$loops', ()):
            self.post_loop_reads.add((ln, attr))

    def mangle(self, attr, module):
        if attr.startswith('__') and not attr.endswith('__') and self.cur_class:
            return '_%s%s' % (self.cur_class.lstrip('_'), attr)
        return attr

    def getattr_(self, st, v, attr, module=None):
        k = v.k
        if k == 'module':
            return [('ok', st, SV('builtin', '%s.%s' % (v.v, attr)))]
        if k == 'builtin':
            return [('ok', st, SV('builtin', '%s.%s' % (v.v, attr)))]
        if k == 'class':
            ci = self.repo.classes.get(v.v)
            if ci is not None:
                m = self.repo.lookup_method(ci, attr)
                if m is not None:
                    clo = Closure(m.node, m.module, None, name=m.name, finfo=m, cls=m.cls.name)
                    if m.kind == 'classmethod':
                        clo.selfsv = v
                    return [('ok', st, SV('func', clo))]
                for c in self.repo.mro(ci):
                    if attr in c.class_attrs:
                        key = '%s.%s' % (c.name, attr)
                        if key in self.cfg.class_attr_models:
                            return self.cfg.class_attr_models[key](self, st)
                        for kind, s2, val in self.eval(c.class_attrs[attr], st, c.module):
                            return [(kind, s2, val)]
                if attr == '__name__':
                    return [('ok', st, sv_str(ci.cname))]
            if attr == '__name__':
                return [('ok', st, sv_str(v.v.split('.')[-1]))]
            return [('ok', st, SV('builtin', '%s.%s' % (v.v, attr)))]
        if k == 'slice':
            idx = {'start': 0, 'stop': 1, 'step': 2}.get(attr)
            if idx is not None:
                return [('ok', st, v.v[idx])]
        if k in ('int', 'str', 'none', 'bool', 'tuple', 'seq'):
            if k in ('str', 'tuple', 'seq') or (k == 'int' and attr in ('bit_length',)):
                return [('ok', st, SV('method', (v, attr)))]
            return self.raise_builtin(st, 'AttributeError', [sv_str(attr)])
        if k == 'func':
            if attr == '__name__':
                return [('ok', st, sv_str(getattr(v.v.node, 'name', '<lambda>')))]
            raise Unsupported('attribute %s of function' % attr)
        if k == 'ref':
            o = self.local(st, v)
            if v.t and v.t.startswith('inst:'):
                cname = v.t[5:]
                ci = self.repo.classes.get(cname)
                if attr == '__class__':
                    return [('ok', st, SV('class', cname))]
                if attr == '__dict__' and o is not None and '__dict__' in o.fields:
                    return [('ok', st, o.fields['__dict__'])]
                if attr == '__dict__' and o is not None:
                    return [('ok', st, SV('instdict', v))]
                if ci is not None:
                    for c in self.repo.mro(ci):
                        if attr in c.nested:
                            return [('ok', st, SV('class', c.nested[attr].name))]
                    m = self.repo.lookup_method(ci, attr)
                    if m is not None:
                        if m.kind == 'staticmethod':
                            return [('ok', st, SV('func', Closure(m.node, m.module, None, name=m.name, finfo=m, cls=m.cls.name)))]
                        selfsv = SV('class', cname) if m.kind == 'classmethod' else v
                        return [('ok', st, SV('func', Closure(m.node, m.module, None, name=m.name, selfsv=selfsv, finfo=m, cls=m.cls.name)))]
                if o is not None:
                    if attr in o.fields:
                        return [('ok', st, o.fields[attr])]
                    if ci is not None:
                        for c in self.repo.mro(ci):
                            if attr in c.class_attrs:
                                return self.eval(c.class_attrs[attr], st, c.module)
                    if cname in self.facts.class_names and self.facts.issub(cname, 'BaseException') and attr == 'args':
                        return [('ok', st, SV('tuple', []))]
                    return self.raise_builtin(st, 'AttributeError', [sv_str(attr)])
                if ci is not None:
                    for c in self.repo.mro(ci):
                        if attr in c.class_attrs and self.field_tag(cname, attr) is None:
                            return self.eval(c.class_attrs[attr], st, c.module)
                tag = self.field_tag(cname, attr)
                if tag is None and ci is None and attr != 'args':
                    raise Unsupported('attribute %s on %s' % (attr, v.t))
                if attr == 'args' and tag is None:
                    tag = 'seq'
                if attr in self.cfg.optional_attrs:
                    present = fn('attr_present', R, z3.StringSort(), z3.BoolSort())(v.v, z3.StringVal(attr))
                    res = []
                    for s2, flag in self.split(st, present):
                        if flag:
                            self.note_heap_read(s2, attr)
                            val = s2.attr_arr(attr)[v.v]
                            s2.add(Z.birth(z3.Const('at0_' + attr, Z.ArrRR)[v.v]) < z3.Int('clock0'))
                            res.append(('ok', s2, self.unbox(s2, val, tag)))
                        else:
                            res += self.raise_builtin(s2, 'AttributeError', [sv_str(attr)])
                    return res
                self.note_heap_read(st, attr)
                val = st.attr_arr(attr)[v.v]
                # the initial heap only references objects that existed before this execution started
                st.add(Z.birth(z3.Const('at0_' + attr, Z.ArrRR)[v.v]) < z3.Int('clock0'))
                return [('ok', st, self.unbox(st, val, tag))]
            if v.t == 'chainmap' and attr == 'maps':
                return [('ok', st, sv_ref(v.v, 'cmmaps'))]
            if v.t in ('list', 'dict', 'chainmap', 'set', 'iter', 'kwdict'):
                return [('ok', st, SV('method', (v, attr)))]
            if v.t == 'simple':
                kt = v.v
                if z3.is_app(kt) and kt.decl().name() == 'py_klass' and attr not in ('__name__',):
                    return self.prim(st, 'getattr', [v, sv_str(attr)])       # a class object obtained through type(x): user-level attribute
                if z3.is_app(kt) and kt.decl().name() == 'py_klass' and attr == '__name__':
                    return [('ok', st, SV('str', fn('class_name', R, Z.S)(kt)))]
                return self.raise_builtin(st, 'AttributeError', [sv_str(attr)])
            # opaque object: user-level getattr
            if attr == '__class__':
                return [('ok', st, sv_ref(Z.klass(v.v)))]
            return self.prim(st, 'getattr', [v, sv_str(attr)])
        if k in ('instdict', 'super'):
            return [('ok', st, SV('method', (v, attr)))]
        raise Unsupported('attribute %s of %r' % (attr, v))

    # ---- ChainMap model ---------------------------------------------------------------------------------------------------
    def cm_frame(self, st, cm):
        """SV of cm.maps[0]"""
        o = self.local(st, cm)
        if o is not None:
            return o.maps0
        return sv_ref(cm0(cm.v), 'dict')

    def cm_parent(self, st, cm):
        o = self.local(st, cm)
        if o is not None:
            return o.parent
        return sv_ref(cmp_(cm.v), 'chainmap')

    def dict_rows(self, st, d):
        o = self.local(st, d)
        if o is not None:
            return o.vals, o.has
        return st.arr['dv'][d.v], st.arr['dh'][d.v]

    def old_value(self, st, d, kb):
        st.add(Z.birth(z3.Const('dv0', Z.ArrDV)[d.v][kb]) < z3.Int('clock0'))

    def cm_lookup_terms(self, st, cm, kb, fuel=6):
        """(has, val) z3 terms for ChainMap lookup, unfolding through frames that are known (fresh ChainMaps and up to
        `fuel` published ones), ending in the uninterpreted recursive lookup over the current dict arrays."""
        o = self.local(st, cm)
        vals, has = self.dict_rows(st, self.cm_frame(st, cm))
        if o is not None:
            par = o.parent
            if par is None:
                return has[kb], vals[kb]
            ph, pv = self.cm_lookup_terms(st, par, kb, fuel)
            return z3.Or(has[kb], ph), z3.If(has[kb], vals[kb], pv)
        LH = fn('cm_has', Z.ArrDH, R, R, B)
        LV = fn('cm_val', Z.ArrDV, Z.ArrDH, R, R, R)
        h, vl = LH(st.arr['dh'], cm.v, kb), LV(st.arr['dv'], st.arr['dh'], cm.v, kb)
        # one definitional unfolding of the recursive lookup at this chain map (ground instance)
        p = cmp_(cm.v)
        st.add(h == z3.Or(has[kb], z3.And(p != Z.NONE, LH(st.arr['dh'], p, kb))),
               vl == z3.If(has[kb], vals[kb], LV(st.arr['dv'], st.arr['dh'], p, kb)))
        return h, vl

    def cm_has(self, st, cm, kb):
        return self.cm_lookup_terms(st, cm, kb)[0]

    def cm_getitem(self, st, cm, key):
        kb = self.box(st, key)
        has, val = self.cm_lookup_terms(st, cm, kb)
        tag = self.scope_key_tag(key)
        if self.scope_key_present(key):
            st.add(has)          # ScopeInv: internal bookkeeping keys are always bound (assumption, established by glom()/_glom)
            return [('ok', st, self.unbox_scope(st, val, tag))]
        res = []
        for s2, flag in self.split(st, has):
            if flag:
                s2.events.append(('scope-read',))
                res.append(('ok', s2, self.unbox_scope(s2, val, tag)))
            else:
                res += self.raise_builtin(s2, 'KeyError', [key])
        return res

    def unbox_scope(self, st, val, tag):
        return self.unbox(st, val, tag)

    def scope_key_name(self, key):
        if key.k == 'ref' and z3.is_const(key.v):
            return str(key.v)
        if key.k == 'class':
            return 'CLS_' + key.v.replace('.', '_')
        if key.k == 'func' and key.v.name:
            return 'FN_' + key.v.name
        return None

    def scope_key_present(self, key):
        n = self.scope_key_name(key)
        return n is not None and n in self.cfg.scope_keys

    def scope_key_tag(self, key):
        n = self.scope_key_name(key)
        return self.cfg.scope_key_types.get(n)

    def dict_store(self, st, d, key, val):
        """d[key] = val on a modelled dict"""
        self.publish_into_container(st, d, val)
        kb, vb = self.box(st, key), self.box(st, val)
        o = self.local(st, d)
        if o is not None:
            o.vals = z3.Store(o.vals, kb, vb)
            o.has = z3.Store(o.has, kb, z3.BoolVal(True))
            o.pending.append((key, val))
        else:
            st.arr['dv'] = z3.Store(st.arr['dv'], d.v, z3.Store(st.arr['dv'][d.v], kb, vb))
            st.arr['dh'] = z3.Store(st.arr['dh'], d.v, z3.Store(st.arr['dh'][d.v], kb, z3.BoolVal(True)))
            st.events.append(('dict-store',))

    def publish_into_container(self, st, container, val):
        # nested fresh objects stored into a container are published (containers hold plain references)
        self.publish(st, val)

    def dict_delete(self, st, d, key):
        kb = self.box(st, key)
        o = self.local(st, d)
        vals, has = self.dict_rows(st, d)
        res = []
        for s2, flag in self.split(st, has[kb]):
            if not flag:
                res += self.raise_builtin(s2, 'KeyError', [key]); continue
            o2 = self.local(s2, d)
            if o2 is not None:
                o2.has = z3.Store(o2.has, kb, z3.BoolVal(False))
            else:
                s2.arr['dh'] = z3.Store(s2.arr['dh'], d.v, z3.Store(s2.arr['dh'][d.v], kb, z3.BoolVal(False)))
            res.append(('ok', s2, NONE_SV))
        return res

    def dict_getitem(self, st, d, key):
        kb = self.box(st, key)
        vals, has = self.dict_rows(st, d)
        n = self.scope_key_name(key)
        if n is not None and n in self.cfg.frame_keys and self.local(st, d) is None:
            st.add(has[kb])     # FrameInv: every scope frame created by glom()/_glom binds these keys (assumption, see C05/C07)
            return [('ok', st, self.unbox(st, vals[kb], self.scope_key_tag(key)))]
        res = []
        for s2, flag in self.split(st, has[kb]):
            if flag:
                res.append(('ok', s2, self.unbox(s2, vals[kb], self.scope_key_tag(key))))
            else:
                res += self.raise_builtin(s2, 'KeyError', [key])
        return res

    # ---- subscripts ---------------------------------------------------------------------------------------------------------
    def e_Subscript(self, e, st, module):
        outs = []
        if isinstance(e.slice, ast.Slice):
            parts = [e.value] + [x if x is not None else ast.Constant(value=None) for x in (e.slice.lower, e.slice.upper, e.slice.step)]
            for kind, s, vals in self.eval_seq(parts, st, module):
                if kind != 'ok':
                    outs.append((kind, s, vals)); continue
                outs += self.getslice(s, vals[0], vals[1], vals[2], vals[3])
            return outs
        for kind, s, vals in self.eval_seq([e.value, e.slice], st, module):
            if kind != 'ok':
                outs.append((kind, s, vals)); continue
            outs += self.getitem(s, vals[0], vals[1])
        return outs

    def getitem(self, st, o, idx):
        if o.k == 'tuple':
            ci = Z.concrete_int(idx.v) if idx.k == 'int' else None
            if ci is not None:
                if -len(o.v) <= ci < len(o.v):
                    return [('ok', st, o.v[ci])]
                return self.raise_builtin(st, 'IndexError', [sv_str('tuple index out of range')])
            if idx.k == 'int':
                return self.seq_index(st, self.as_seq(st, o), idx.v, 'tuple')
        if o.k == 'seq' and idx.k == 'int':
            return self.seq_index(st, o.v, idx.v, 'tuple')
        if o.k == 'seq' and idx.k == 'slice':
            return self.getslice(st, o, *idx.v)
        if o.k == 'str' and idx.k == 'int':
            n = z3.Length(o.v)
            res = []
            for s2, flag in self.split(st, z3.And(idx.v >= -n, idx.v < n)):
                if flag:
                    j = z3.If(idx.v < 0, idx.v + n, idx.v)
                    res.append(('ok', s2, SV('str', z3.SubString(o.v, j, 1))))
                else:
                    res += self.raise_builtin(s2, 'IndexError', [sv_str('string index out of range')])
            return res
        if o.k == 'ref':
            if o.t == 'chainmap':
                return self.cm_getitem(st, o, idx)
            if o.t == 'dict':
                return self.dict_getitem(st, o, idx)
            if o.t == 'list' and idx.k == 'int':
                return self.seq_index(st, self.list_seq(st, o), idx.v, 'list')
            if o.t == 'cmmaps':
                ci = Z.concrete_int(idx.v)
                cm = sv_ref(o.v, 'chainmap')
                for _ in range(ci):
                    cm = self.cm_parent(st, cm)
                return [('ok', st, self.cm_frame(st, cm))]
            if o.t is None or o.t == 'simple':
                if idx.k == 'int':
                    res = []
                    for s2, flag in self.split(st, Z.is_tuple(o.v)):
                        res += self.seq_index(s2, Z.tupitems(o.v), idx.v, 'tuple') if flag else self.prim(s2, 'getitem', [o, idx])
                    return res
                return self.prim(st, 'getitem', [o, idx])
        if o.k == 'cmmaps':
            ci = Z.concrete_int(idx.v)
            cm = o.v
            for _ in range(ci):
                cm = self.cm_parent(st, cm)
            return [('ok', st, self.cm_frame(st, cm))]
        raise Unsupported('subscript %r[%r]' % (o, idx))

    def seq_index(self, st, seq, i, what):
        n = z3.Length(seq)
        res = []
        for s2, flag in self.split(st, z3.And(i >= -n, i < n)):
            if flag:
                j = z3.If(i < 0, i + n, i)
                s2.events.append(('seq-read',))
                val = seq[j]
                self.view_law(s2, seq, j, val)
                hook = self.cfg.hooks.get('seq_read')
                if hook:
                    hook(self, s2, seq, j, val)
                res.append(('ok', s2, sv_ref(val)))
            else:
                res += self.raise_builtin(s2, 'IndexError', [sv_str('%s index out of range' % what)])
        return res

    def view_law(self, st, seq, j, val):
        """element laws of derived sequence views (strides, zips, reversals), instantiated at the index being read"""
        if not z3.is_app(seq) or seq.decl().kind() != z3.Z3_OP_UNINTERPRETED:
            return
        nm = seq.decl().name()
        if nm.startswith('stride'):
            k = int(nm[6:])
            base, a = seq.arg(0), seq.arg(1)
            st.add(z3.Implies(z3.And(j >= 0, j < z3.Length(seq), a >= 0), val == base[a + k * j]))
        elif nm == 'zip2':
            a, b = seq.arg(0), seq.arg(1)
            pair = Z.seq_of([a[j], b[j]])
            self.view_law(st, a, j, a[j])
            self.view_law(st, b, j, b[j])
            st.add(z3.Implies(z3.And(j >= 0, j < z3.Length(seq)), z3.And(Z.is_tuple(val), Z.tupitems(val) == pair)))
        elif nm == 'seq_rev':
            base = seq.arg(0)
            st.add(z3.Implies(z3.And(j >= 0, j < z3.Length(seq)), val == base[z3.Length(base) - 1 - j]))
            self.view_law(st, base, z3.Length(base) - 1 - j, base[z3.Length(base) - 1 - j])

    def opt_int(self, st, v):
        """None-or-int operand of a slice -> (z3 Int | None) ; only statically known kinds"""
        if v.k == 'none':
            return None
        if v.k == 'int':
            return v.v
        raise Unsupported('slice bound %r' % (v,))

    def getslice(self, st, o, lo, hi, step):
        if step.k != 'none':
            cs = Z.concrete_int(step.v) if step.k == 'int' else None
            if cs == 1:
                step = NONE_SV
            elif cs is not None and cs > 1 and o.k in ('seq', 'tuple'):
                # s[a:b:k] : strided view of s[:b], defined element-wise by the stride axioms (instantiated on read)
                base = self.as_seq(st, o)
                if hi.k != 'none':
                    base = Z.seq_slice(base, None, self.opt_int(st, hi))
                return [('ok', st, SV('seq', self.stride(st, base, self.opt_int(st, lo), cs)))]
            else:
                raise Unsupported('extended slice with step %r' % (step,))
        if o.k == 'tuple' and lo.k in ('none', 'int') and hi.k in ('none', 'int'):
            a = None if lo.k == 'none' else Z.concrete_int(lo.v)
            b = None if hi.k == 'none' else Z.concrete_int(hi.v)
            if (lo.k == 'none' or a is not None) and (hi.k == 'none' or b is not None):
                return [('ok', st, SV('tuple', o.v[a:b]))]
        if o.k in ('seq', 'tuple'):
            return [('ok', st, SV('seq', Z.seq_slice(self.as_seq(st, o), self.opt_int(st, lo), self.opt_int(st, hi))))]
        if o.k == 'str':
            n = z3.Length(o.v)
            a, b = Z.slice_bounds(n, self.opt_int(st, lo), self.opt_int(st, hi))
            return [('ok', st, SV('str', z3.SubString(o.v, a, z3.If(b > a, b - a, 0))))]
        if o.k == 'ref' and o.t == 'list':
            s2 = st.fork()
            ref = self.alloc(s2, 'list', Obj('list', seq=Z.seq_slice(self.list_seq(s2, o), self.opt_int(s2, lo), self.opt_int(s2, hi))))
            return [('ok', s2, sv_ref(ref, 'list'))]
        if o.k == 'ref':
            s2 = st.fork()
            sl = SV('slice', (lo, hi, step))
            return self.prim(s2, 'getitem', [o, sl])
        raise Unsupported('slice of %r' % (o,))

    def stride(self, st, seq, start, k):
        """seq[start::k] for a concrete k > 1 and non-negative concrete-or-symbolic start: uninterpreted with a length law and an
        element law that the contract layer instantiates at the indices it reads (ghost['strides'])."""
        a = start if start is not None else z3.IntVal(0)
        t = fn('stride%d' % k, SeqR, I, SeqR)(seq, a)
        n = z3.Length(seq)
        st.add(z3.Implies(z3.And(a >= 0, a <= n), z3.Length(t) == Z.py_floordiv(n - a + (k - 1), z3.IntVal(k))),
               z3.Implies(a > n, z3.Length(t) == 0))
        st.ghost.setdefault('strides', []).append((t, seq, a, k))
        return t
