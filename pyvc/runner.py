"""./check <Cxx> [--tier quick|thorough]   |   ./check --replay <file>

Exit codes: 0 every obligation discharged (known findings printed) / 1 VIOLATION (a locked obligation is refuted) /
2 undecided (solver unknown, construct outside the subset, contract without subject) / 3 checker error.
"""
import argparse, ast, importlib, json, os, sys, time, traceback, hashlib

VERIF = os.path.dirname(os.path.dirname(os.path.abspath(__file__)))
REPO = os.environ.get('GLOM_REPO', '/repo')
sys.path.insert(0, VERIF)
sys.path.insert(0, REPO)
os.environ['PYTHONPATH'] = REPO + os.pathsep + os.environ.get('PYTHONPATH', '')


def load_ref_modules(names):
    out = {}
    for n in names:
        with open(os.path.join(VERIF, 'contracts', n + '.py')) as f:
            out[n] = ast.parse(f.read())
    return out


_WORKER = {}


def _worker_setup(pid, overrides):
    """per-process: parse the working tree, import it natively for the class facts, load the contract module"""
    key = (pid, tuple(sorted((overrides or {}).items())))
    if _WORKER.get('key') != key:
        from pyvc import extract, facts
        mod = importlib.import_module('contracts.' + pid)
        _WORKER.update(key=key, mod=mod, repo=extract.Repo(REPO, overrides=overrides), facts=facts.Facts(REPO),
                       refs=load_ref_modules(getattr(mod, 'REF_MODULES', [])), contracts=mod.contracts())
    return _WORKER


def _verify_task(task):
    """symbolic execution of one contract (or one case of it) -> serialisable result"""
    pid, overrides, ci, case_i = task
    from pyvc import verify, discharge
    from pyvc.engine import Config
    w = _worker_setup(pid, overrides)
    mod = w['mod']

    def base():
        c = Config()
        c.field_types = dict(getattr(mod, 'FIELD_TYPES', {}))
        if hasattr(mod, 'config'):
            mod.config(c)
        return c
    v = verify.Verifier(w['repo'], w['facts'], w['refs'], base)
    c = w['contracts'][ci]
    t0 = time.time()
    try:
        if case_i is not None:
            import copy
            c = copy.copy(c)
            if c.kind == 'post':
                c.cases = [c.cases[case_i]]
            else:
                c.kw = dict(c.kw, cases=[c.kw['cases'][case_i]])
        if c.kind == 'post':
            v.verify_post(c)
        elif c.kind == 'equiv':
            v.verify_equiv(c)
        else:
            c.run(v)
    except KeyError as e:
        v.undecided.append((c.label, str(e)))
    except Exception as e:
        import traceback
        v.undecided.append((c.label, 'checker crash: %r %s' % (e, traceback.format_exc()[-600:])))
        v.crashed = True
    ex = v.new_executor(base())
    axioms_for = getattr(mod, 'axioms_for', None)
    jobs = discharge.prepare(ex, v.obligations, (lambda ob: axioms_for(ex, ob)) if axioms_for else None)
    return {'jobs': jobs, 'functions': v.functions, 'undecided': v.undecided, 'covers': v.covers, 'paths': v.stats['paths'], 'stmt_seen': sorted(v.stmt_seen),
            'sym_s': time.time() - t0, 'crashed': getattr(v, 'crashed', False)}


class _Summary:
    pass


def build_and_prove(mod, overrides=None, rlimit=None, second_solver=False, only=None):
    from pyvc import discharge
    from concurrent.futures import ProcessPoolExecutor
    import multiprocessing
    pid = mod.__name__.split('.')[-1]
    contracts = mod.contracts()
    tasks = []
    for ci, c in enumerate(contracts):
        if only and not any(c.label.startswith(o) for o in only):
            continue
        ncases = len(c.cases) if c.kind == 'post' else len(c.kw.get('cases') or [])
        if ncases > 1:
            tasks += [(pid, overrides, ci, k) for k in range(ncases)]
        else:
            tasks.append((pid, overrides, ci, None))
    t0 = time.time()
    nproc = int(os.environ.get('PYVC_PROCS', '0')) or min(16, os.cpu_count() or 4, max(1, len(tasks)))
    if nproc <= 1 or len(tasks) <= 1:
        parts = [_verify_task(t) for t in tasks]
    else:
        ctx = multiprocessing.get_context('fork')
        with ProcessPoolExecutor(max_workers=nproc, mp_context=ctx) as pool:
            parts = list(pool.map(_verify_task, tasks, chunksize=1))
    t_sym = time.time() - t0
    v = _Summary()
    v.functions, v.undecided, v.covers, v.stats, v.crashed = {}, [], [], {'paths': 0}, False
    v.stmt_seen = set()
    v.repo = _worker_setup(pid, overrides)['repo']
    jobs = []
    seen_generic = set()
    for p in parts:
        # loop-body obligations are generic (independent of the case that reached the loop): keep the first task's copy
        mine = {j['name'] for j in p['jobs'] if j['kind'] == 'body-equiv'}
        jobs += [j for j in p['jobs'] if j['kind'] != 'body-equiv' or j['name'] not in seen_generic]
        seen_generic |= mine
        v.functions.update(p['functions'])
        v.undecided += p['undecided']
        v.covers += p['covers']
        v.stmt_seen |= {tuple(x) for x in p.get('stmt_seen', ())}
        v.stats['paths'] += p['paths']
        v.crashed = v.crashed or p['crashed']
    t1 = time.time()
    results = discharge.solve_jobs(jobs, rlimit=rlimit, second_solver=second_solver)
    return v, results, t_sym, time.time() - t1


def _all_natives(mod):
    """witness finders: the check's own, then those of the other contract modules (a contract claimed from another module keeps that
    module's input catalogue for the native witness search)"""
    out = dict(getattr(mod, 'NATIVE', {}))
    for i in range(1, 20):
        try:
            other = importlib.import_module('contracts.C%02d' % i)
        except Exception:
            continue
        for k, f in getattr(other, 'NATIVE', {}).items():
            out.setdefault(k, f)
    return out


def load_known():
    p = os.path.join(VERIF, 'known_findings.json')
    if not os.path.exists(p):
        return []
    return json.load(open(p))['findings']


def load_lock():
    p = os.path.join(VERIF, 'obligations.lock')
    return json.load(open(p)) if os.path.exists(p) else {}


def run_native(code, timeout=120):
    """run a python snippet against the working tree in a fresh interpreter; -> (exit, output)"""
    import subprocess
    env = dict(os.environ, PYTHONPATH=REPO + os.pathsep + VERIF)
    p = subprocess.run([sys.executable, '-c', code], capture_output=True, text=True, timeout=timeout, env=env, cwd=VERIF)
    return p.returncode, (p.stdout + p.stderr)[-4000:]


def check(pid, tier, seed):
    t_start = time.time()
    os.environ['PYVC_TIER'] = tier          # contract modules may offer more cases of a contract in the thorough tier (read in contracts())
    mod = importlib.import_module('contracts.' + pid)
    thorough = tier == 'thorough'
    rl = int(os.environ.get('PYVC_RLIMIT', '30000000')) * (10 if thorough else 1)
    v, results, t_sym, t_solve = build_and_prove(mod, rlimit=rl, second_solver=thorough)
    known = [k for k in load_known() if k['property'] == pid]
    open_known = {k['obligation']: k for k in known if k['status'] == 'open' and not k['obligation'].startswith('(bounded)')}
    lock = load_lock().get(pid)
    lines, exit_code = [], 0
    names = [r['name'] for r in results]
    by = {r['name']: r for r in results}
    expected = [n for n in names if n not in open_known]
    proved = [n for n in expected if by[n]['status'] == 'proved']
    refuted = [n for n in expected if by[n]['status'] == 'refuted']
    unknown = [n for n in names if by[n]['status'] in ('unknown', 'error')]
    violations = []
    replay_dir = os.path.join(VERIF, 'replays')
    os.makedirs(replay_dir, exist_ok=True)
    # known findings: the carve-out half is expected to be refuted, and the recorded witness must still fail natively
    kf_lines = []
    for oname, k in open_known.items():
        r = by.get(oname)
        if r is None:
            lines.append('NOTE known finding %s: its obligation %s was not generated' % (k['id'], oname))
            exit_code = max(exit_code, 3)
            continue
        if r['status'] == 'refuted':
            rc, out = run_native(k['witness_code'])
            if rc != 0:
                kf_lines.append('KNOWN-FINDING: property=%s %s' % (pid, k['what']))
            else:
                lines.append('NOTE known finding %s: obligation still refuted but the recorded witness no longer fails natively' % k['id'])
                kf_lines.append('KNOWN-FINDING: property=%s %s (witness no longer reproduces; obligation %s still refuted)' % (pid, k['what'], oname))
        elif r['status'] == 'proved':
            lines.append('NOTE known finding %s appears repaired: %s now discharges' % (k['id'], oname))
    # fixed findings: regression replays
    for k in known:
        if k['status'] == 'fixed' and k.get('witness_code'):
            rc, out = run_native(k['witness_code'])
            if rc != 0:
                path = os.path.join(replay_dir, '%s-regression-%s.json' % (pid, k['id']))
                json.dump({'property': pid, 'kind': 'regression of a fixed finding', 'finding': k, 'native_output': out,
                           'replay_code': k['witness_code']}, open(path, 'w'), indent=1)
                violations.append(path)
    # refuted obligations -> violations with native witness search
    for n in refuted:
        r = by[n]
        finder = None
        for prefix, f in _all_natives(mod).items():
            if n.startswith(prefix):
                finder = f
        witness = None
        if finder is not None:
            try:
                witness = finder(n, r.get('model', {}))
            except Exception as e:
                witness = None
                lines.append('NOTE witness search crashed for %s: %r' % (n, e))
        safe = hashlib.sha1(n.encode()).hexdigest()[:10]
        path = os.path.join(replay_dir, '%s-%s.json' % (pid, safe))
        json.dump({'property': pid, 'obligation': n, 'function': r['func'], 'clause': r['clause'], 'solver': r['solver'],
                   'counter_model': r.get('model', {}), 'witness': witness,
                   'replay_code': (witness or {}).get('replay_code'),
                   'note': 'the obligation was generated from the current working tree; it is refuted (solver: sat)'},
                  open(path, 'w'), indent=1, default=str)
        violations.append((path, witness is not None))
    if lock is not None:
        missing = [n for n in lock if n not in by]
        if missing:
            lines.append('CHECKER-ERROR: %d locked obligations were not generated, e.g. %s' % (len(missing), missing[:3]))
            exit_code = max(exit_code, 3)
    if not results:
        lines.append('CHECKER-ERROR: zero obligations generated')
        exit_code = 3
    for label, ok in v.covers:
        if not ok:
            lines.append('CHECKER-ERROR: cover failed: %s' % label)
            exit_code = max(exit_code, 3)
    if v.crashed:
        exit_code = max(exit_code, 3)
    # statement coverage of the functions under contract (vacuity guard): a statement no symbolic execution reached carries no obligation
    from pyvc import coverage
    unexec = ['%s: %s' % (f, t) for f, ts in coverage.unexecuted(v.repo, v.functions, v.stmt_seen).items() for t in ts]
    accepted = set(load_lock().get(pid + '#unexecuted', []))
    new_unexec = [u for u in unexec if u not in accepted]
    if new_unexec and load_lock().get(pid) is not None:
        lines.append('CHECKER-ERROR: %d statement(s) of functions under contract were never symbolically executed (no obligation covers them), e.g. %s'
                     % (len(new_unexec), new_unexec[:3]))
        exit_code = max(exit_code, 3)
    if v.undecided or unknown:
        exit_code = max(exit_code, 2)
        for label, why in v.undecided:
            lines.append('UNDECIDED %s: %s' % (label, why))
        for n in unknown:
            lines.append('UNDECIDED %s: solver %s (%s)' % (n, by[n]['status'], by[n].get('reason')))
    # bounded stand-ins (labelled; never counted as proved)
    bounded = []
    import signal

    class _Timeout(BaseException):     # not an Exception: a stand-in's own `except Exception` must not turn it into an observed outcome
        pass

    def _alarm(signum, frame):
        raise _Timeout()
    signal.signal(signal.SIGALRM, _alarm)
    for b in getattr(mod, 'BOUNDED', []):
        try:
            signal.alarm(int(os.environ.get('PYVC_BOUNDED_TIMEOUT', '900' if thorough else '300')))
            try:
                res = b(tier, seed)
            finally:
                signal.alarm(0)
        except _Timeout:
            # a wall-clock budget says nothing about the property (a loaded machine looks the same as a hang): undecided, never a violation
            lines.append('UNDECIDED: bounded stand-in %s did not finish within its time budget' % getattr(b, '__name__', b))
            bounded.append({'name': getattr(b, '__name__', str(b)), 'label': 'bounded', 'cases': 0, 'bound': 'timed out (undecided)', 'failures': []})
            exit_code = max(exit_code, 2)
            continue
        except Exception as e:
            lines.append('CHECKER-ERROR: bounded stand-in %s crashed: %r' % (getattr(b, '__name__', b), e))
            traceback.print_exc()
            exit_code = max(exit_code, 3)
            continue
        bounded.append(res)
        for f in res.get('failures', []):
            kf = [k for k in known if k['status'] == 'open' and k.get('bounded_key') and k['bounded_key'] == f.get('key')]
            if kf:
                line = 'KNOWN-FINDING: property=%s %s' % (pid, kf[0]['what'])
                if line not in kf_lines:
                    kf_lines.append(line)
                continue
            path = os.path.join(replay_dir, '%s-bounded-%s.json' % (pid, hashlib.sha1(json.dumps(f, default=str).encode()).hexdigest()[:10]))
            json.dump({'property': pid, 'kind': 'bounded stand-in failure', 'failure': f, 'replay_code': f.get('replay_code')},
                      open(path, 'w'), indent=1, default=str)
            violations.append((path, True))
    # bounded differential replay of every relational contract: the reference semantics executed natively against the real code
    # over the contract's input catalogue (labelled bounded; a runtime cross-check of the proofs, and the only net under a
    # function whose proof became undecided)
    for prefix, finder in getattr(mod, 'NATIVE', {}).items():
        if not hasattr(finder, 'run'):
            continue
        try:
            signal.alarm(int(os.environ.get('PYVC_BOUNDED_TIMEOUT', '900' if thorough else '300')))
            try:
                ncases, w = finder.run()
            finally:
                signal.alarm(0)
        except _Timeout:
            lines.append('UNDECIDED: differential replay %s did not finish within its time budget' % prefix)
            bounded.append({'name': 'differential replay %s vs %s' % (finder.real_name, finder.ref_name), 'label': 'bounded', 'cases': 0,
                            'bound': 'timed out (undecided)', 'failures': []})
            exit_code = max(exit_code, 2)
            continue
        except Exception as e:
            lines.append('CHECKER-ERROR: differential replay %s crashed: %r' % (prefix, e))
            exit_code = max(exit_code, 3)
            continue
        bounded.append({'name': 'differential replay %s vs %s' % (finder.real_name, finder.ref_name), 'label': 'bounded', 'cases': ncases,
                        'bound': 'the contract\'s native input catalogue', 'failures': [w] if w else []})
        if w:
            kf = [k for k in known if k['status'] == 'open' and k.get('bounded_key') and k['bounded_key'] == w.get('key')]
            if kf:
                continue
            path = os.path.join(replay_dir, '%s-replay-%s.json' % (pid, hashlib.sha1(prefix.encode()).hexdigest()[:10]))
            json.dump({'property': pid, 'kind': 'differential replay: real code disagrees with the contract reference', 'contract': prefix,
                       'witness': w, 'replay_code': w.get('replay_code')}, open(path, 'w'), indent=1, default=str)
            if not any(isinstance(v_, tuple) and v_[0] == path for v_ in violations):
                violations.append((path, True))
    # mutant canaries (thorough): the engine must refute each deliberately broken body
    canaries = []
    if thorough:
        for cn in getattr(mod, 'CANARIES', []):
            src = v.repo.text[cn['module']]
            if cn['old'] not in src:
                canaries.append({'name': cn['name'], 'status': 'not-applicable (source text changed)'})
                continue
            try:
                v2, res2, _, _ = build_and_prove(mod, overrides={cn['module']: src.replace(cn['old'], cn['new'], 1)}, rlimit=rl,
                                                 only=cn.get('only'))
                bad = [r['name'] for r in res2 if r['status'] == 'refuted' and r['name'] not in open_known]
                und = bool(v2.undecided)
                hit = [b for b in bad if any(b.startswith(p) for p in cn.get('expect', ['']))]
                canaries.append({'name': cn['name'], 'refuted': bad[:6], 'status': 'caught' if hit else ('undecided' if und else 'MISSED')})
                if not hit and not und:
                    lines.append('CHECKER-ERROR: mutant canary %s verifies (engine too weak for this function)' % cn['name'])
                    exit_code = max(exit_code, 3)
            except Exception as e:
                canaries.append({'name': cn['name'], 'status': 'error %r' % e})
    for l in kf_lines:
        print(l)
    for v_ in violations:
        path, has_input = v_ if isinstance(v_, tuple) else (v_, True)
        print('VIOLATION property=%s replay=%s%s' % (pid, path, '' if has_input else ' no-failing-input-found'))
        exit_code = 1
    for l in lines:
        print(l)
    wall = time.time() - t_start
    samples = [{'obligation': r['name'], 'function': r['func'], 'clause': r['clause'], 'status': r['status'], 'solver': r['solver'],
                'solver_time_s': round(r['time'], 3), 'paths': r['paths']} for r in results[:6]]
    ev = {
        'property_id': pid, 'tier': tier, 'seed': seed, 'level': 'proof',
        'coverage': {
            'obligations': len(expected), 'discharged': len(proved),
            'checker_cmd': './check %s --tier %s' % (pid, tier),
            'trusted_base': list(getattr(mod, 'TRUSTED', [])) + ['PyVC extraction/symbolic execution/encoding (pyvc/*.py)', 'z3 %s' % __import__('z3').get_version_string(), 'cvc5 (second back end)'],
            'samples': samples,
            'explanation': getattr(mod, 'EXPLANATION', ''),
            'functions_under_contract': v.functions,
            'per_obligation': [{'name': r['name'], 'status': r['status'], 'backend': r['solver'], 'time_s': round(r['time'], 3),
                                'kind': r['kind'], 'paths': r['paths'], **({'cvc5_recheck': r['cvc5_recheck']} if 'cvc5_recheck' in r else {})} for r in results],
            'refuted': refuted, 'undecided': [u[0] for u in v.undecided] + unknown,
            'known_finding_obligations': {n: by[n]['status'] for n in open_known if n in by},
            'known_findings_reported': kf_lines,
            'covers': [{'name': n, 'ok': ok} for n, ok in v.covers],
            'unexecuted_statements': unexec,
            'symbolic_paths': v.stats['paths'],
            'symexec_s': round(t_sym, 2), 'solver_wall_s': round(t_solve, 2),
            'solver_cpu_s': round(sum(r['time'] for r in results), 2),
            'bounded': bounded, 'canaries': canaries,
            'exhaustive': False,
        },
        'assumptions': list(getattr(mod, 'ASSUMPTIONS', [])),
        'wall_s': round(wall, 2),
        'violations': len(violations),
    }
    evdir = os.environ.get('PYVC_EVIDENCE_DIR') or os.path.join(VERIF, 'evidence')      # (development sweeps redirect this; the interface path is the default)
    os.makedirs(evdir, exist_ok=True)
    json.dump(ev, open(os.path.join(evdir, pid + '.json'), 'w'), indent=1, default=str)
    print('%s: %d obligations expected to hold, %d discharged, %d refuted, %d undecided; %d known-finding obligations; symexec %.1fs solver %.1fs; exit %d'
          % (pid, len(expected), len(proved), len(refuted), len(unknown) + len(v.undecided), len(open_known), t_sym, t_solve, exit_code))
    return exit_code


def replay(path):
    d = json.load(open(path))
    code = d.get('replay_code')
    if not code:
        print('replay file carries no failing input (no-failing-input-found); obligation: %s' % d.get('obligation'))
        print(json.dumps(d.get('counter_model', {}), indent=1)[:2000])
        return 0
    rc, out = run_native(code)
    print(out)
    print('replay: the property %s on this input' % ('is VIOLATED' if rc != 0 else 'holds'))
    return 1 if rc != 0 else 0


def main():
    ap = argparse.ArgumentParser()
    ap.add_argument('pid', nargs='?')
    ap.add_argument('--tier', default=os.environ.get('VERIF_TIER', 'quick'))
    ap.add_argument('--replay')
    ap.add_argument('--write-lock', action='store_true')
    a = ap.parse_args()
    if a.replay:
        sys.exit(replay(a.replay))
    seed = int(os.environ.get('VERIF_SEED', '0'))
    try:
        rc = check(a.pid, a.tier, seed)
    except Exception:
        traceback.print_exc()
        print('CHECKER-ERROR: crash in the checker (not a verdict about the property)')
        rc = 3
    if a.write_lock and rc in (0,):
        ev = json.load(open(os.path.join(VERIF, 'evidence', a.pid + '.json')))
        lock = load_lock()
        lock[a.pid] = sorted(o['name'] for o in ev['coverage']['per_obligation'] if o['status'] == 'proved')
        lock[a.pid + '#unexecuted'] = sorted(ev['coverage'].get('unexecuted_statements', []))
        json.dump(lock, open(os.path.join(VERIF, 'obligations.lock'), 'w'), indent=1, sort_keys=True)
    sys.exit(rc)


if __name__ == '__main__':
    main()
