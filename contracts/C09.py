"""C09 — Match succeeds exactly on conforming targets and returns them unchanged."""
from pyvc.verify import Post, Case, Equiv, NativeFacts
from contracts import common

PROPERTY = 'C09'
REF_MODULES = ['ref_match', 'ref_extra', 'ref_core', 'ref_reduce', 'ref_auto']


def config(cfg):
    common.apply(cfg)
    cfg.summaries['matching._precedence'] = 'precedence'
    cfg.field_types.update({'matching.Optional.key': 'ref', 'matching.Required.key': 'ref'})


def _nosum(*names):
    def f(cfg):
        for n in names:
            cfg.summaries.pop(n, None)
    return f


def contracts():
    cs = []
    cs.append(Equiv('matching.Match.glomit', 'ref_match.match_glomit_ref', args={'self': 'inst:matching.Match', 'target': 'ref', 'scope': 'chainmap'}))
    cs.append(Equiv('matching._glom_match', 'ref_match.match_ref', args={'target': 'ref', 'spec': 'ref', 'scope': 'chainmap'},
                    loops={1: dict(vars=[('result', 'list'), ('target', 'ref'), ('spec', 'ref'), ('scope', 'chainmap'), ('last_error', 'ref')],
                                   ref_vars=[('out', 'list'), ('target', 'ref'), ('spec', 'ref'), ('scope', 'chainmap'), ('last', 'ref')]),
                           2: dict(vars=[('result', 'list'), ('item', 'ref'), ('scope', 'chainmap'), ('last_error', 'ref')],
                                   ref_vars=[('out', 'list'), ('element', 'ref'), ('scope', 'chainmap'), ('last', 'ref')]),
                           3: dict(vars=[('result', 'list'), ('scope', 'chainmap')], ref_vars=[('out', 'list'), ('scope', 'chainmap')])}))
    cs.append(Equiv('matching._handle_dict', 'ref_match.match_dict_ref', config=_nosum('matching._handle_dict'),
                    args={'target': 'ref', 'spec': 'ref', 'scope': 'chainmap'},
                    loops={1: dict(vars=[], ref_vars=[]),
                           2: dict(vars=[], ref_vars=[]),
                           3: dict(vars=[('result', 'dict'), ('required', 'ref'), ('spec', 'ref'), ('spec_keys', 'ref'), ('scope', 'chainmap')],
                                   ref_vars=[('out', 'dict'), ('needed', 'ref'), ('spec', 'ref'), ('spec', 'ref'), ('scope', 'chainmap')],
                                   locals=['key', 'val', 'maybe_spec_key', 'spec_key', 'candidate', 'key_pattern'], inv=['spec_keys is spec']),
                           4: dict(vars=[('result', 'dict'), ('required', 'ref'), ('spec', 'ref'), ('scope', 'chainmap'), ('key', 'ref'), ('val', 'ref')],
                                   ref_vars=[('out', 'dict'), ('needed', 'ref'), ('spec', 'ref'), ('scope', 'chainmap'), ('key', 'ref'), ('val', 'ref')],
                                   locals=['spec_key', 'key_pattern']),
                           5: dict(vars=[('result', 'dict'), ('target', 'ref'), ('defaults', 'dict'), ('scope', 'chainmap')],
                                   ref_vars=[('out', 'dict'), ('target', 'ref'), ('defaults', 'dict'), ('scope', 'chainmap')]),
                           6: dict(vars=[], ref_vars=[])}))
    cs.append(NativeFacts('C09.class-facts', [
        ('TypeMatchError<=MatchError', 'issubclass(TypeMatchError, MatchError)', lambda f: f.issub('matching.TypeMatchError', 'matching.MatchError')),
        ('TypeMatchError<=TypeError', 'issubclass(TypeMatchError, TypeError)', lambda f: f.issub('matching.TypeMatchError', 'TypeError')),
        ('MatchError<=GlomError', 'issubclass(MatchError, GlomError)', lambda f: f.issub('matching.MatchError', 'core.GlomError')),
    ], func='class TypeMatchError / MatchError'))
    from contracts import extra
    cs.append(Equiv('matching.Regex.glomit', 'ref_core.regex_glomit_ref', args={'self': 'inst:matching.Regex', 'target': 'ref', 'scope': 'chainmap'}))
    cs += common.shared(extra, ['matching._precedence', 'matching.Optional.__init__', 'matching.Required.__init__', 'matching.Optional.glomit', 'matching.Match.verify', 'matching.Match.matches'])
    # Optional defaults and Match(default=) are produced by arg_val with a fresh per-call valuator (contracts shared with C08)
    from contracts import C08, X_ctor
    cs += common.shared(C08, ['core.arg_val', 'core._ArgValuator.mode'])
    cs += common.shared(X_ctor, ['core._ArgValuator.__init__', 'matching.Match.__init__'])
    # boolean combinators and negation used inside patterns decide as their C10 contracts say
    from contracts import C10
    cs += common.shared(C10, ['matching.Not.glomit', 'matching.And._glomit', 'matching.Or._glomit', 'matching._Bool.glomit', 'matching._Bool.__init__'])
    cs += common.shared(X_ctor, ['matching.Not.__init__'])
    cs += common.shared(X_ctor, ['matching.TypeMatchError.__init__'])
    cs += common.shared(C10, ['matching.Regex.__init__'])
    cs += common.shared(C08, ['core.chain_child'])
    return cs


from contracts import native as _n
_PAT = ["int", "str", "1", "'a'", "[int]", "[]", "[int, str]", "{int}", "frozenset([1, 2])", "(int, str)", "(int, str, float)", "()", "{'a': int}", "{str: int}",
        "{int: str, Optional(1): int}", "{Optional('a', default=5): int, 'b': str}", "{Required(str): int}", "{'a': int, str: object}", "bool", "lambda x: x > 1", "len",
        "{'id': And(int, M == T), 'x': object}", "Regex('a+')", "Or(int, str)", "Not(int)", "M > 1", "{1: 'one'}", "object", "[{'a': int}]", "(1, [str])"]
_TGT = ["1", "'a'", "'aaa'", "[1, 2]", "[1, 'a']", "[]", "{1, 2}", "frozenset([1, 2])", "(1, 'a')", "(1, 'a', 2.0)", "()", "(1,)", "{'a': 1}", "{'a': 'x'}", "{}", "{'b': 'x'}",
        "{1: 'one', 2: 'two'}", "{1: 5}", "{'a': 1, 'b': 2}", "None", "2", "0", "{'id': 3, 'x': None}", "[{'a': 1}, {'a': 's'}]", "(1, ['x', 'y'])", "(1, [2])"]
NATIVE = {
    'matching._glom_match': _n.differ('matching._glom_match', 'ref_match.match_ref', lambda: [(t, p) for t in _TGT for p in _PAT]),
    'matching._handle_dict': _n.differ('matching._handle_dict', 'ref_match.match_dict_ref', lambda: [(t, p) for t in _TGT for p in _PAT if p.startswith('{') and ':' in p]),
    'matching.Match.glomit': _n.differ('matching.Match.glomit', 'ref_match.match_glomit_ref',
                                       lambda: [(t, 'Match(%s%s)' % (p, d)) for t in _TGT for p in _PAT for d in ('', ", default='dflt'")], mode='method'),
}
ASSUMPTIONS = [
    'G-contract for sub-matches (nested specs: Regex, And/Or/Not, M ... are covered by their own contracts, C10)',
    'isinstance / == / hash / iteration of targets and patterns are opaque user-level primitives; dict/list/set patterns behave like builtins',
    '_precedence is an abstract pure function here (its recursion over tuple/frozenset members is not under contract); Optional/Required constructors likewise',
    'the target is never modified: _glom_match / _handle_dict perform no store into the target (every store goes to a freshly allocated result container: heap threading)',
]
TRUSTED = ['reference semantics contracts/ref_match.py']
EXPLANATION = 'Match.glomit, _glom_match (all pattern kinds) and the dict matcher are proved equal to reference semantics; class facts for TypeMatchError.'
CANARIES = [
    {'name': 'match: type by identity', 'module': 'matching', 'only': ['matching._glom_match'], 'expect': ['matching._glom_match'],
     'old': "        if not isinstance(target, spec):\n            raise TypeMatchError(type(target), spec)", 'new': "        if type(target) is not spec:\n            raise TypeMatchError(type(target), spec)"},
    {'name': 'match dict: break lost', 'module': 'matching', 'only': ['matching._handle_dict'], 'expect': ['matching._handle_dict'],
     'old': "                required.discard(maybe_spec_key)\n                break", 'new': "                required.discard(maybe_spec_key)"},
]
