"""C16 — Group builds exactly the buckets and aggregates of a hand-written loop."""
from pyvc.verify import Post, Case, Equiv, NativeFacts
from contracts import common, C15

PROPERTY = 'C16'
REF_MODULES = ['ref_reduce', 'h_ops', 'ref_registry', 'ref_extra', 'ref_core']


def config(cfg):
    C15.config(cfg)
    cfg.field_types.update({'grouping.Limit.n': 'ref'})


_nosum = C15._nosum


def contracts():
    cs = []
    cs.append(Equiv('grouping.First.agg', 'ref_reduce.first_agg_ref', args={'self': 'inst:grouping.First', 'target': 'ref', 'tree': 'dict'}))
    cs.append(Equiv('grouping.Max.agg', 'ref_reduce.max_agg_ref', args={'self': 'inst:grouping.Max', 'target': 'ref', 'tree': 'dict'}))
    cs.append(Equiv('grouping.Min.agg', 'ref_reduce.min_agg_ref', args={'self': 'inst:grouping.Min', 'target': 'ref', 'tree': 'dict'}))
    cs.append(Equiv('grouping.Avg.agg', 'ref_reduce.avg_agg_ref', args={'self': 'inst:grouping.Avg', 'target': 'ref', 'tree': 'dict'}))
    cs.append(Equiv('reduction.Fold._agg', 'ref_reduce.fold_agg_ref', config=_nosum('reduction.Fold._agg'),
                    args={'self': 'inst:reduction.Fold', 'target': 'ref', 'tree': 'dict'}))
    cs.append(Equiv('reduction.Merge._agg', 'ref_reduce.merge_agg_ref', config=_nosum('reduction.Merge._agg'),
                    args={'self': 'inst:reduction.Merge', 'target': 'ref', 'tree': 'dict'}))
    # the same step contracts by DISPATCH on each concrete reduction class (an _agg override added to a subclass is what gets executed)
    nosum = _nosum('reduction.Fold._agg', 'reduction.Merge._agg')
    for cname in ('Fold', 'Sum', 'Count', 'Flatten'):
        cs.append(Equiv('h_ops.agg_step', 'ref_reduce.fold_agg_ref', label='LEMMA C16.agg[%s]' % cname, config=nosum,
                        args={'spec': 'inst:reduction.%s' % cname, 'target': 'ref', 'tree': 'dict'}))
    cs.append(Equiv('h_ops.agg_step', 'ref_reduce.merge_agg_ref', label='LEMMA C16.agg[Merge]', config=nosum,
                    args={'spec': 'inst:reduction.Merge', 'target': 'ref', 'tree': 'dict'}))
    cs.append(Equiv('grouping.Limit.glomit', 'ref_reduce.limit_glomit_ref', args={'self': 'inst:grouping.Limit', 'target': 'ref', 'scope': 'chainmap'}))
    cs.append(Equiv('grouping.Group.glomit', 'ref_reduce.group_glomit_ref', args={'self': 'inst:grouping.Group', 'target': 'ref', 'scope': 'chainmap'},
                    loops={1: dict(vars=[('ret', 'ref'), ('last', 'ref'), ('self', 'inst:grouping.Group'), ('scope', 'chainmap')],
                                   ref_vars=[('result', 'ref'), ('previous', 'ref'), ('self', 'inst:grouping.Group'), ('scope', 'chainmap')])}))
    cs.append(Equiv('grouping.GROUP', 'ref_reduce.group_mode_ref', args={'target': 'ref', 'spec': 'ref', 'scope': 'chainmap'},
                    loops={1: dict(vars=[('tree', 'dict'), ('acc', 'ref'), ('done', 'bool'), ('target', 'ref'), ('scope', 'chainmap'), ('recurse', 'ref')],
                                   ref_vars=[('tree', 'dict'), ('acc', 'ref'), ('done', 'bool'), ('target', 'ref'), ('scope', 'chainmap'), ('recurse', 'ref')]),
                           2: dict(vars=[('acc', 'ref'), ('spec', 'ref'), ('target', 'ref'), ('scope', 'chainmap'), ('recurse', 'ref')],
                                   ref_vars=[('acc', 'ref'), ('spec', 'ref'), ('target', 'ref'), ('scope', 'chainmap'), ('recurse', 'ref')])}))
    # how the items reach the aggregators: iteration of the target through the registry (shared with C15 / C13)
    from contracts import C15, C13
    cs += common.shared(C15, ['grouping.target_iter'])
    cs += common.shared(C13, ['core.TargetRegistry.get_handler', 'core.TargetRegistry.get_type_map', 'core.TargetRegistry._get_closest_type', 'core.TargetRegistry.register'])
    from contracts import X_ctor as _xc16
    cs += common.shared(_xc16, ['grouping.Limit.__init__', 'grouping.Group.__init__'])
    return cs


from contracts import native as _n
_GS = ["Group([T])", "Group({T % 2: [T]})", "Group({T % 3: Max()})", "Group({T % 2: {T % 3: [T]}})", "Group(Avg())", "Group({(lambda x: SKIP if x == 2 else x % 2): [T]})",
       "Group([lambda x: SKIP if x % 2 else x])", "Group(Limit(2))", "Group({T % 2: Sum()})", "Group(First())", "Group({T % 3: First()})", "Group(Count())", "Group({T % 2: Min()})", "Group(Max())", "Group({T % 2: Max()})"]
_GS2 = ["Group([Group(Sum())])", "Group({len: [Group({T % 2: [T]})]})", "Group([Group([T])])", "(Group([Group(Max())]), Group(Sum()))"]
_GI = ["[0, 1, 3, 2]", "[]", "[5]", "[1, 2, 3, 4, 5, 6]", "[2, 2, 2]", "3", "range(4)", "[-3, 0, -2]", "[-4, 0, -2, -1, -6, -3]", "[3, 0, 4]"]
_GI2 = ["[[1, 2], [3, 4], [5]]", "[[1], [2, 2]]", "[]"]
NATIVE = {
    'grouping.Group.glomit': _n.differ('grouping.Group.glomit', 'ref_reduce.group_glomit_ref', lambda: [(t, g) for t in _GI for g in _GS] + [(t, g) for t in _GI2 for g in _GS2], mode='method',
                                       prelude='from glom.grouping import First, Avg, Max, Min, Limit, Group\nfrom glom.reduction import Count, Sum'),
}


def bounded_bucket_composition(tier, seed):
    """Group({k1: {k2: leaf}}) against a hand-written bucketing loop: item sequences of length <= 5 (quick) / 6 (thorough) over 4 values,
    <= 2 key levels (+ 3 in thorough), every leaf kind, SKIP-producing keys and values, re-use and nesting of one spec object."""
    import itertools
    from glom import glom, T, SKIP
    from glom.grouping import Group, First, Avg, Max, Min, Limit
    from glom.reduction import Sum, Count, Flatten, Merge
    keyfns = [('T % 2', lambda x: x % 2), ('T % 3', lambda x: x % 3), ('skip2', lambda x: SKIP if x == 2 else x % 2), ('const', lambda x: 'k')]
    def keyspec(name, f):
        return {'T % 2': T % 2, 'T % 3': T % 3}.get(name, f)
    leaves = {
        'list': (lambda: [T], lambda xs: list(xs)),
        'list-skip-odd': (lambda: [lambda x: SKIP if x % 2 else x], lambda xs: [x for x in xs if not x % 2]),
        'first': (lambda: First(), lambda xs: xs[0]),
        'max': (lambda: Max(), lambda xs: max(xs)),
        'min': (lambda: Min(), lambda xs: min(xs)),
        'avg': (lambda: Avg(), lambda xs: sum(xs) / len(xs)),
        'sum': (lambda: Sum(), lambda xs: sum(xs)),
        'count': (lambda: Count(), lambda xs: len(xs)),
    }
    def oracle(items, fns, leaf):
        if not fns:
            return leaf(items)
        out = {}
        order = []
        buckets = {}
        for x in items:
            k = fns[0](x)
            if k is SKIP:
                continue
            if k not in buckets:
                buckets[k] = []
                order.append(k)
            buckets[k].append(x)
        for k in order:
            sub = [x for x in buckets[k]]
            if len(fns) > 1:
                r = oracle(sub, fns[1:], leaf)
                if r == {} and False:
                    continue
                out[k] = r
            else:
                if sub:
                    out[k] = leaf(sub)
        return out
    maxlen = 6 if tier == 'thorough' else 4
    levels = (1, 2, 3) if tier == 'thorough' else (1, 2)
    cases, failures, seen = 0, [], set()
    values = [0, 1, 2, 3]
    for n in range(1, maxlen + 1):
        for items in itertools.product(values, repeat=n):
            items = list(items)
            for depth in levels:
                for fs in itertools.product(keyfns[:3] if depth > 1 else keyfns, repeat=depth):
                    for lname, (mk, leaf) in leaves.items():
                        if lname == 'list-skip-odd' and depth > 1:
                            continue
                        spec_inner = mk()
                        for name, f in reversed(fs):
                            spec_inner = {keyspec(name, f): spec_inner}
                        spec = Group(spec_inner)
                        cases += 1
                        try:
                            exp = oracle(items, [f for _, f in fs], leaf)
                            # a bucket whose every value was skipped does not appear
                            if lname == 'list-skip-odd':
                                exp = {k: v for k, v in exp.items()}
                            got = glom(items, spec)
                            got2 = glom(items, spec)          # re-use of the same spec object carries nothing over
                        except Exception as e:
                            got, got2, exp = repr(e), None, exp
                        if got != exp or (got2 is not None and got2 != got):
                            stops = lname == 'first'
                            key = 'stop-under-dict' if stops else 'bucket-composition'
                            if key in seen:
                                continue
                            seen.add(key)
                            failures.append({'key': key, 'input': {'items': items, 'keys': [nm for nm, _ in fs], 'leaf': lname}, 'observed': repr(got)[:200],
                                             'expected': repr(exp)[:200],
                                             'replay_code': None})
    return {'name': 'multi-level bucket composition vs hand-written loop', 'bound': 'len<=%d over 4 values, %s key levels, 8 leaf kinds, spec re-used twice' % (maxlen, levels),
            'cases': cases, 'failures': failures, 'label': 'bounded'}


BOUNDED = [bounded_bucket_composition]
ASSUMPTIONS = C15.ASSUMPTIONS[:1] + [
    'comparison (> <), arithmetic (+= /) and hashing of items are opaque user-level primitives',
    'the abstraction from the mixed-namespace accumulator tree to nested buckets (several key levels) is covered by the labelled bounded stand-in, not by a proof',
]
TRUSTED = ['reference semantics contracts/ref_reduce.py', 'hand-written bucketing oracle in contracts/C16.py (bounded stand-in)']
EXPLANATION = ('single-step contracts: First/Max/Min/Avg.agg, Fold._agg, Merge._agg, Limit.glomit, Group.glomit (fresh ACC_TREE per evaluation, items fed in order, '
               'STOP returns the previous result) and the GROUP dispatcher (dict level / list leaf / aggregator / callable) are proved equal to reference semantics; '
               'multi-level composition is bounded.')
CANARIES = [
    {'name': 'Max: comparison swapped', 'module': 'grouping', 'only': ['grouping.Max'], 'expect': ['grouping.Max'],
     'old': "        if self not in tree or target > tree[self]:", 'new': "        if self not in tree or target < tree[self]:"},
    {'name': 'Group: accumulator not reset', 'module': 'grouping', 'only': ['grouping.Group'], 'expect': ['grouping.Group'],
     'old': "        scope[ACC_TREE] = {}\n", 'new': "        scope[ACC_TREE] = getattr(self, '_tree', {})\n"},
    {'name': 'GROUP: SKIP appended', 'module': 'grouping', 'only': ['grouping.GROUP'], 'expect': ['grouping.GROUP'],
     'old': "            if result is not SKIP:\n                acc.append(result)", 'new': "            acc.append(result)"},
]
