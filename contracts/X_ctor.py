"""development aid: runs the constructor contracts of contracts/extra.py on their own (tools/one.py X_ctor); not a check"""
from contracts import common, extra
PROPERTY = None
REF_MODULES = ['ref_extra']


def config(cfg):
    common.apply(cfg)


def contracts():
    return extra.ctor_contracts() + extra.renderer_contracts()
