"""Reference semantics of the target registry (C13), written from the property statement."""
try:
    assume
except NameError:
    def assume(cond):
        return None
from collections import OrderedDict, ChainMap
from glom.core import TargetRegistry, UnregisteredTarget, _DEFAULT_SCOPE, glom, _get_sequence_item, _AbstractIterable, _ObjStyleKeys
import operator


def get_handler_ref(self, op, obj, path=None, raise_exc=True):
    """the handler for (type(obj), op): memoised per registry; an exact registration of the very type wins, otherwise the handler of
    the closest registered type found in the op's type tree; no handler (False) raises UnregisteredTarget (and is not memoised)"""
    obj_type = type(obj)
    memo_key = (obj_type, op)
    if memo_key in self._type_cache:
        return self._type_cache[memo_key]
    found = False
    type_map = self.get_type_map(op)
    if type_map:
        try:
            found = type_map[obj_type]
        except KeyError:
            closest = self._get_closest_type(obj, type_tree=self._op_type_tree.get(op, {}))
            if closest is None:
                found = False
            else:
                found = type_map[closest]
    if found is False and raise_exc:
        raise UnregisteredTarget(op, obj_type, type_map=type_map, path=path)
    self._type_cache[memo_key] = found
    return self._type_cache[memo_key]


def get_type_map_ref(self, op):
    try:
        return self._op_type_map[op]
    except KeyError:
        return OrderedDict()


def closest_type_ref(self, obj, type_tree):
    """depth-first: the first registered type (in tree order) the object is an instance of, refined by the same search in its sub-tree"""
    for candidate, sub_tree in type_tree.items():
        if isinstance(obj, candidate):
            deeper = self._get_closest_type(obj, type_tree=sub_tree)
            if deeper is None:
                return candidate
            return deeper
    return None


def register_ref(self, target_type, **kwargs):
    """register(type, exact=, **handlers): for every known op the handler is the given one, else the one already registered for this very
    type, else the op's auto-discovered one; handlers must be callable or False; unless exact, the type is filed in each op's type
    tree; the memo is reset so that the registration takes effect for the very next lookup"""
    if not isinstance(target_type, type):
        raise TypeError(f'register expected a type, not an instance: {target_type!r}')
    exact = kwargs.pop('exact', None)
    new_op_map = dict(kwargs)
    for op_name in sorted(set(self._op_auto_map.keys()) | set(new_op_map.keys())):
        cur_type_map = self._op_type_map.setdefault(op_name, OrderedDict())
        if op_name in new_op_map:
            handler = new_op_map[op_name]
        elif target_type in cur_type_map:
            handler = cur_type_map[target_type]
        else:
            try:
                handler = self._op_auto_map[op_name](target_type)
            except Exception as e:
                raise TypeError('error while determining support for operation'
                                ' "%s" on target type: %s (got %r)' % (op_name, target_type.__name__, e))
        if handler is not False and not callable(handler):
            raise TypeError('expected handler for op "%s" to be callable or False, not: %r' % (op_name, handler))
        new_op_map[op_name] = handler
    for op_name, handler in new_op_map.items():
        self._op_type_map[op_name][target_type] = handler
    if not exact:
        for op_name in new_op_map:
            self._register_fuzzy_type(op_name, target_type)
    self._type_cache = {}
    return None


def glommer_init_ref(self, **kwargs):
    """a Glommer owns a one-frame copy of the given scope (default: the module scope as it is now) with its OWN fresh registry"""
    register_default_types = kwargs.pop('register_default_types', True)
    scope = kwargs.pop('scope', _DEFAULT_SCOPE)
    self.scope = ChainMap(dict(scope))
    self.scope[TargetRegistry] = TargetRegistry(register_default_types=register_default_types)


def glommer_register_ref(self, target_type, **kwargs):
    exact = kwargs.pop('exact', False)
    self.scope[TargetRegistry].register(target_type, exact=exact, **kwargs)
    return None


def glommer_glom_ref(self, target, spec, **kwargs):
    return glom(target, spec, scope=self.scope, **kwargs)


def module_register_ref(target_type, **kwargs):
    """module-level register(): the default scope's registry, nothing else"""
    _DEFAULT_SCOPE[TargetRegistry].register(target_type, **kwargs)
    return None


def registry_init_ref(self, register_default_types=True):
    """a new registry owns all of its state (handler maps, type trees, memo, auto map: fresh objects, nothing shared with any other registry),
    registers the built-in operations, then -- unless told otherwise -- the default types"""
    self._op_type_map = {}
    self._op_type_tree = {}
    self._type_cache = {}
    self._op_auto_map = OrderedDict()
    self._register_builtin_ops()
    if register_default_types:
        self._register_default_types()


def default_types_ref(self):
    """default registrations, in this order (later registrations of unrelated types take precedence in the fuzzy tree, so the order is
    observable): object (attribute access for everything), the concrete containers dict / list / tuple / OrderedDict, and only then the two
    structural duck types (_AbstractIterable for iteration, _ObjStyleKeys for the keys of plain objects)"""
    self.register(object)
    self.register(dict, get=operator.getitem)
    self.register(dict, keys=dict.keys)
    self.register(list, get=_get_sequence_item)
    self.register(tuple, get=_get_sequence_item)
    self.register(OrderedDict, get=operator.getitem)
    self.register(OrderedDict, keys=OrderedDict.keys)
    self.register(_AbstractIterable, iterate=iter)
    self.register(_ObjStyleKeys, keys=_ObjStyleKeys.get_keys)
