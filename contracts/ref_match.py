"""Reference semantics of the matching combinators (C10) and of Match / match mode (C09), written from the property statements."""
try:
    assume
except NameError:
    def assume(cond):
        return None
from glom.core import glom, T, GlomError, arg_val, chain_child, Path, SKIP, STOP, MODE, bbrepr
from glom.matching import (M, MatchError, TypeMatchError, CheckError, _MISSING, _MSubspec, _MExpr, _M_OP_MAP, RAISE, Required, Optional,
                           _precedence, _handle_dict, _glom_match)


def bool_ref(self, target, scope):
    """And / Or honour their default: any GlomError of the combinator yields the (argument-evaluated) default"""
    try:
        return self._glomit(target, scope)
    except GlomError:
        if self.default is _MISSING:
            raise
        return arg_val(target, self.default, scope)


def and_ref(self, target, scope):
    """passes iff all children pass, in order; yields the last child's result"""
    out = target
    for child in self.children:
        out = scope[glom](target, child, scope)
    return out


def or_ref(self, target, scope):
    """passes iff any child passes; yields the first passing child's result, later children are not evaluated;
    when none passes the last child's error propagates"""
    n = len(self.children)
    i = 0
    for child in self.children[:n - 1]:
        try:
            return scope[glom](target, child, scope)
        except GlomError:
            i = i + 1
    return scope[glom](target, self.children[n - 1], scope)


def not_ref(self, target, scope):
    """inverts: yields the target iff the child is rejected (GlomError); a passing child is a rejection -> MatchError"""
    try:
        scope[glom](target, self.child, scope)
    except GlomError:
        return target
    raise MatchError("child shouldn't have passed", self.child)


def msubspec_ref(self, target, scope):
    value = scope[glom](target, self.spec, scope)
    if value:
        return target
    raise MatchError('expected truthy value from {0!r}, got {1!r}', self.spec, value)


def mtype_ref(self, target, spec):
    if target:
        return target
    raise MatchError("{0!r} not truthy", target)


def mexpr_ref(self, target, scope):
    """passes exactly when the Python comparison selected by the op code is true between the operands
    (M -> the target, M(T-expr) -> its value); returns the target"""
    lhs, rhs, op = self.lhs, self.rhs, self.op
    if lhs is M:
        lhs = target
    if rhs is M:
        rhs = target
    if type(lhs) is _MSubspec:
        lhs = scope[glom](target, lhs.spec, scope)
    if type(rhs) is _MSubspec:
        rhs = scope[glom](target, rhs.spec, scope)
    if op == '=':
        ok = lhs == rhs
    elif op == '!':
        ok = lhs != rhs
    elif op == '>':
        ok = lhs > rhs
    elif op == '<':
        ok = lhs < rhs
    elif op == 'g':
        ok = lhs >= rhs
    elif op == 'l':
        ok = lhs <= rhs
    else:
        ok = False
    if ok:
        return target
    raise MatchError("{0!r} {1} {2!r}", lhs, _M_OP_MAP.get(op, op), rhs)


def switch_ref(self, target, scope):
    """evaluates only the value spec of the first case whose key spec passes (bindings of the key are chained into the value);
    default if none passes, else MatchError"""
    for pair in self.cases:
        key, value = pair
        try:
            scope[glom](target, key, scope)
        except GlomError:
            continue
        return scope[glom](target, value, chain_child(scope))
    if self.default is not _MISSING:
        return arg_val(target, self.default, scope)
    raise MatchError("no matches for target in %s" % self.__class__.__name__)


def check_ref(self, target, scope):
    """Check(spec, type=, equal_to=/one_of=, validate=, instance_of=, default=): conditions are tested in this order on the
    (sub-)target; a validator fails by returning False or by raising.  Without default every failure is collected into one
    CheckError; with a default the first failure yields the default.  Success returns the ORIGINAL target."""
    original = target
    errs = []
    if self.spec is not T:
        target = scope[glom](target, self.spec, scope)
    if self.types and type(target) not in self.types:
        if self.default is not RAISE:
            return arg_val(target, self.default, scope)
        errs.append('expected type to be %r, found type %r' %
                    (self.types[0].__name__ if len(self.types) == 1 else tuple([t.__name__ for t in self.types]),
                     type(target).__name__))
    if self.vals and target not in self.vals:
        if self.default is not RAISE:
            return arg_val(target, self.default, scope)
        if len(self.vals) == 1:
            errs.append(f"expected {self.vals[0]}, found {target}")
        else:
            errs.append(f'expected one of {self.vals}, found {target}')
    if self.validators:
        for i, validator in enumerate(self.validators):
            failed = False
            raised = None
            try:
                res = validator(target)
                if res is False:
                    failed = True
            except Exception as e:
                failed = True
                raised = e
            if failed:
                if self.default is not RAISE:
                    return self.default
                msg = ('expected %r check to validate target' % getattr(validator, '__name__', None) or ('#%s' % i))
                if raised is not None and type(raised) is not self._ValidationError:
                    msg += ' (got exception: %r)' % raised
                errs.append(msg)
    if self.instance_of and not isinstance(target, self.instance_of):
        if self.default is not RAISE:
            return arg_val(target, self.default, scope)
        errs.append('expected instance of %r, found instance of %r' %
                    (self.instance_of[0].__name__ if len(self.instance_of) == 1 else tuple([t.__name__ for t in self.instance_of]),
                     type(target).__name__))
    if errs:
        raise CheckError(errs, self, scope[Path])
    return original


# ------------------------------------------------------------------------------------------------------------------ C09
def match_glomit_ref(self, target, scope):
    """Match(pattern): evaluate the pattern in match mode; any GlomError yields the (argument-evaluated) default if one was given"""
    scope[MODE] = _glom_match
    try:
        ret = scope[glom](target, self.spec, scope)
    except GlomError:
        if self.default is _MISSING:
            raise
        ret = arg_val(target, self.default, scope)
    return ret


def match_ref(target, spec, scope):
    """match mode: types by isinstance; dicts by match_dict_ref; list / set / frozenset: same container type and every element
    matches the first alternative that accepts it (an empty pattern only matches an empty target); tuples: a tuple of the same
    length, position-wise; callables: truthy result, any exception is a rejection; everything else by ==.  Type failures are
    TypeMatchError, the others MatchError; the (rebuilt) target is returned"""
    if isinstance(spec, type):
        if not isinstance(target, spec):
            raise TypeMatchError(type(target), spec)
        return target
    if isinstance(spec, dict):
        return _handle_dict(target, spec, scope)
    if isinstance(spec, (list, set, frozenset)):
        if not isinstance(target, type(spec)):
            raise TypeMatchError(type(target), type(spec))
        out = []
        for element in target:
            for alternative in spec:
                try:
                    out.append(scope[glom](element, alternative, scope))
                    break
                except GlomError as e:
                    last = e
            else:
                if target and not spec:
                    raise MatchError("{0!r} does not match empty {1}", target, type(spec).__name__)
                raise last
        if type(spec) is not list:
            return type(spec)(out)
        return out
    if isinstance(spec, tuple):
        if not isinstance(target, tuple):
            raise TypeMatchError(type(target), tuple)
        if len(target) != len(spec):
            raise MatchError("{0!r} does not match {1!r}", target, spec)
        out = []
        for sub_target, sub_spec in zip(target, spec):
            out.append(scope[glom](sub_target, sub_spec, scope))
        return tuple(out)
    if callable(spec):
        try:
            if spec(target):
                return target
        except Exception as e:
            # (a callable pattern need not have a __name__ -- functools.partial objects, callable instances: the rejection is a MatchError all the same)
            raise MatchError("{0}({1!r}) did not validate (got exception {2!r})", getattr(spec, '__name__', bbrepr(spec)), target, e)
        raise MatchError("{0}({1!r}) did not validate (non truthy return)", getattr(spec, '__name__', bbrepr(spec)), target)
    if target != spec:
        raise MatchError("{0!r} does not match {1!r}", target, spec)
    return target


def match_dict_ref(target, spec, scope):
    """dict patterns: the target must be a dict; for each target item the spec keys are tried IN SPEC ORDER (Required(k) stands
    for k), the first key whose match succeeds routes the value (matched with the key's bindings chained in); an item matching no
    key is a rejection.  Keys that must be hit at least once: equality keys not wrapped in Optional, and Required keys.
    Optional defaults are filled in for absent keys."""
    if not isinstance(target, dict):
        raise TypeMatchError(type(target), dict)
    needed = {k for k in spec if _precedence(k) == 0 and type(k) is not Optional or type(k) is Required}
    defaults = {k.key: k.default for k in spec if type(k) is Optional and k.default is not _MISSING}
    out = {}
    for key, val in target.items():
        for candidate in spec:
            if type(candidate) is Required:
                key_pattern = candidate.key
            else:
                key_pattern = candidate
            try:
                key = scope[glom](key, key_pattern, scope)
            except GlomError:
                pass
            else:
                out[key] = scope[glom](val, spec[candidate], chain_child(scope))
                needed.discard(candidate)
                break
        else:
            raise MatchError("key {0!r} didn't match any of {1!r}", key, spec)
    for key in set(defaults) - set(out):
        out[key] = arg_val(target, defaults[key], scope)
    if needed:
        raise MatchError("target missing expected keys: {0}", ', '.join([bbrepr(r) for r in needed]))
    return out


def check_init_ref(self, spec=T, **kwargs):
    """Check(spec, validate=..., type=..., instance_of=..., equal_to=..., one_of=..., default=...): each of validate / type / instance_of
    becomes a tuple (a single value is wrapped; every member must be callable / a type; type and instance_of must not be empty);
    equal_to becomes the one-element candidate tuple and excludes one_of; one_of must be a non-empty iterable; with no condition at
    all the validator is truthiness; unknown keywords are a TypeError; the original keywords are remembered for the repr"""
    self.spec = spec
    self._orig_kwargs = dict(kwargs)
    self.default = kwargs.pop('default', RAISE)

    def normalise(name, cond, func, val, can_be_empty=True):
        if val is _MISSING:
            return ()
        if not is_iterable(val):
            val = (val,)
        elif not val and not can_be_empty:
            raise ValueError('expected %r argument to contain at least one value, not: %r' % (name, val))
        for v in val:
            if not func(v):
                raise ValueError('expected %r argument to be %s, not: %r' % (name, cond, v))
        return val

    def truthy(val):
        return bool(val)
    validate = kwargs.pop('validate', _MISSING if kwargs else truthy)
    type_arg = kwargs.pop('type', _MISSING)
    instance_of = kwargs.pop('instance_of', _MISSING)
    equal_to = kwargs.pop('equal_to', _MISSING)
    one_of = kwargs.pop('one_of', _MISSING)
    if kwargs:
        raise TypeError('unexpected keyword arguments: %r' % kwargs.keys())
    self.validators = normalise('validate', 'callable', callable, validate)
    self.instance_of = normalise('instance_of', 'a type', lambda x: isinstance(x, type), instance_of, False)
    self.types = normalise('type', 'a type', lambda x: isinstance(x, type), type_arg, False)
    if equal_to is not _MISSING:
        self.vals = (equal_to,)
        if one_of is not _MISSING:
            raise TypeError('expected "one_of" argument to be unset when "equal_to" argument is passed')
    elif one_of is not _MISSING:
        if not is_iterable(one_of):
            raise ValueError('expected "one_of" argument to be iterable , not: %r' % one_of)
        if not one_of:
            raise ValueError('expected "one_of" to contain at least one value, not: %r' % (one_of,))
        self.vals = one_of
    else:
        self.vals = ()


def mtype_call_ref(self, spec):
    """M(spec): only T-style specs may be wrapped; the result compares the sub-spec's value"""
    if not isinstance(spec, type(T)):
        raise TypeError("M() only accepts T-style specs, not %s" % type(spec).__name__)
    return _MSubspec(spec)


def regex_init_ref(self, pattern, flags=0, func=None):
    """Regex(pattern, flags, func): func must be one of None / re.match / re.search / re.fullmatch; the compiled pattern's method of the
    same name is used (None means fullmatch); pattern, flags and func are remembered for the repr"""
    if func not in _RE_VALID_FUNCS:
        raise _RE_FUNC_ERROR
    regex = re.compile(pattern, flags)
    if func is re.match:
        match_func = regex.match
    elif func is re.search:
        match_func = regex.search
    elif _RE_FULLMATCH:
        match_func = regex.fullmatch
    else:
        regex = re.compile(f"(?:{pattern})\\Z", flags)
        match_func = regex.match
    self.flags, self.func = flags, func
    self.match_func, self.pattern = match_func, pattern
