"""Reference semantics of the matching combinators (C10) and of Match / match mode (C09), written from the property statements."""
try:
    assume
except NameError:
    def assume(cond):
        return None
from glom.core import glom, T, GlomError, arg_val, chain_child, Path, SKIP, STOP
from glom.matching import (M, MatchError, TypeMatchError, CheckError, _MISSING, _MSubspec, _MExpr, _M_OP_MAP, RAISE, Required, Optional,
                           _precedence, _handle_dict, _glom_match)


def bool_ref(self, target, scope):
    """And / Or honour their default: any GlomError of the combinator yields the (argument-evaluated) default"""
    try:
        return self._glomit(target, scope)
    except GlomError:
        if self.default is _MISSING:
            raise
        return arg_val(target, self.default, scope)


def and_ref(self, target, scope):
    """passes iff all children pass, in order; yields the last child's result"""
    out = target
    for child in self.children:
        out = scope[glom](target, child, scope)
    return out


def or_ref(self, target, scope):
    """passes iff any child passes; yields the first passing child's result, later children are not evaluated;
    when none passes the last child's error propagates"""
    n = len(self.children)
    i = 0
    for child in self.children[:n - 1]:
        try:
            return scope[glom](target, child, scope)
        except GlomError:
            i = i + 1
    return scope[glom](target, self.children[n - 1], scope)


def not_ref(self, target, scope):
    """inverts: yields the target iff the child is rejected (GlomError); a passing child is a rejection -> MatchError"""
    try:
        scope[glom](target, self.child, scope)
    except GlomError:
        return target
    raise MatchError("child shouldn't have passed", self.child)


def msubspec_ref(self, target, scope):
    value = scope[glom](target, self.spec, scope)
    if value:
        return target
    raise MatchError('expected truthy value from {0!r}, got {1!r}', self.spec, value)


def mtype_ref(self, target, spec):
    if target:
        return target
    raise MatchError("{0!r} not truthy", target)


def mexpr_ref(self, target, scope):
    """passes exactly when the Python comparison selected by the op code is true between the operands
    (M -> the target, M(T-expr) -> its value); returns the target"""
    lhs, rhs, op = self.lhs, self.rhs, self.op
    if lhs is M:
        lhs = target
    if rhs is M:
        rhs = target
    if type(lhs) is _MSubspec:
        lhs = scope[glom](target, lhs.spec, scope)
    if type(rhs) is _MSubspec:
        rhs = scope[glom](target, rhs.spec, scope)
    if op == '=':
        ok = lhs == rhs
    elif op == '!':
        ok = lhs != rhs
    elif op == '>':
        ok = lhs > rhs
    elif op == '<':
        ok = lhs < rhs
    elif op == 'g':
        ok = lhs >= rhs
    elif op == 'l':
        ok = lhs <= rhs
    else:
        ok = False
    if ok:
        return target
    raise MatchError("{0!r} {1} {2!r}", lhs, _M_OP_MAP.get(op, op), rhs)


def switch_ref(self, target, scope):
    """evaluates only the value spec of the first case whose key spec passes (bindings of the key are chained into the value);
    default if none passes, else MatchError"""
    for pair in self.cases:
        key, value = pair
        try:
            scope[glom](target, key, scope)
        except GlomError:
            continue
        return scope[glom](target, value, chain_child(scope))
    if self.default is not _MISSING:
        return arg_val(target, self.default, scope)
    raise MatchError("no matches for target in %s" % self.__class__.__name__)


def check_ref(self, target, scope):
    """Check(spec, type=, equal_to=/one_of=, validate=, instance_of=, default=): conditions are tested in this order on the
    (sub-)target; a validator fails by returning False or by raising.  Without default every failure is collected into one
    CheckError; with a default the first failure yields the default.  Success returns the ORIGINAL target."""
    original = target
    errs = []
    if self.spec is not T:
        target = scope[glom](target, self.spec, scope)
    if self.types and type(target) not in self.types:
        if self.default is not RAISE:
            return arg_val(target, self.default, scope)
        errs.append('expected type to be %r, found type %r' %
                    (self.types[0].__name__ if len(self.types) == 1 else tuple([t.__name__ for t in self.types]),
                     type(target).__name__))
    if self.vals and target not in self.vals:
        if self.default is not RAISE:
            return arg_val(target, self.default, scope)
        if len(self.vals) == 1:
            errs.append(f"expected {self.vals[0]}, found {target}")
        else:
            errs.append(f'expected one of {self.vals}, found {target}')
    if self.validators:
        for i, validator in enumerate(self.validators):
            failed = False
            raised = None
            try:
                res = validator(target)
                if res is False:
                    failed = True
            except Exception as e:
                failed = True
                raised = e
            if failed:
                if self.default is not RAISE:
                    return self.default
                msg = ('expected %r check to validate target' % getattr(validator, '__name__', None) or ('#%s' % i))
                if raised is not None and type(raised) is not self._ValidationError:
                    msg += ' (got exception: %r)' % raised
                errs.append(msg)
    if self.instance_of and not isinstance(target, self.instance_of):
        if self.default is not RAISE:
            return arg_val(target, self.default, scope)
        errs.append('expected instance of %r, found instance of %r' %
                    (self.instance_of[0].__name__ if len(self.instance_of) == 1 else tuple([t.__name__ for t in self.instance_of]),
                     type(target).__name__))
    if errs:
        raise CheckError(errs, self, scope[Path])
    return original
