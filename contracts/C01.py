"""C01 — path access returns the addressed object or pinpoints the failing segment."""
from pyvc.verify import Post, Case, Equiv, NativeFacts
from contracts import extra
from contracts import common, C02

PROPERTY = 'C01'
REF_MODULES = ['ref_t', 'h_path', 'ref_auto', 'ref_extra', 'ref_core', 'ref_registry', 'ref_match', 'ref_reduce']
config = C02.config


def contracts():
    cs = [c for c in C02.contracts() if c.label == 'core._t_eval']          # the walk itself (shared with C02)
    cs.append(Equiv('core._get_sequence_item', 'ref_t.get_sequence_item_ref', args={'target': 'ref', 'index': 'ref'}))
    cs.append(Equiv('core.Path.glomit', 'ref_t.path_glomit_ref', args={'self': 'inst:core.Path', 'target': 'ref', 'scope': 'chainmap'},
                    ))
    cs.append(Equiv('core.AUTO', 'ref_auto.auto_ref', args={'target': 'ref', 'spec': 'ref', 'scope': 'chainmap'}, label='core.AUTO[str shortcut]'))
    cs.append(Post('core.PathAccessError.__init__', cases=[
        Case('any', args={'self': 'inst:core.PathAccessError', 'exc': 'ref', 'path': 'ref', 'part_idx': 'int'},
             ensures=['self.exc is exc', 'self.path is path', 'self.part_idx == part_idx'])]))
    import operator, collections

    def reg(f, t):
        import glom.core as gc
        return gc._DEFAULT_SCOPE[gc.TargetRegistry]._op_type_map['get'].get(t)
    cs.append(NativeFacts('C01.class-facts', [
        ('PathAccessError<=GlomError', 'issubclass(PathAccessError, GlomError)', lambda f: f.issub('core.PathAccessError', 'core.GlomError')),
        ('PathAccessError<=KeyError', 'issubclass(PathAccessError, KeyError)', lambda f: f.issub('core.PathAccessError', 'KeyError')),
        ('PathAccessError<=IndexError', 'issubclass(PathAccessError, IndexError)', lambda f: f.issub('core.PathAccessError', 'IndexError')),
        ('PathAccessError<=AttributeError', 'issubclass(PathAccessError, AttributeError)', lambda f: f.issub('core.PathAccessError', 'AttributeError')),
    ], func='class PathAccessError'))
    cs.append(NativeFacts('C01.default-get-handlers', [
        ('dict->getitem', "default registry: get handler of dict is operator.getitem", lambda f: reg(f, dict) is operator.getitem),
        ('OrderedDict->getitem', "get handler of OrderedDict is operator.getitem", lambda f: reg(f, collections.OrderedDict) is operator.getitem),
        ('list->_get_sequence_item', "get handler of list is _get_sequence_item", lambda f: reg(f, list) is f.native('core', '_get_sequence_item')),
        ('tuple->_get_sequence_item', "get handler of tuple is _get_sequence_item", lambda f: reg(f, tuple) is f.native('core', '_get_sequence_item')),
        ('object->getattr', "get handler of object is getattr", lambda f: reg(f, object) is getattr),
    ], func='core.TargetRegistry._register_default_types'))
    pass
    cs += common.shared(extra, ['core.Path.from_text'])
    # "the access registered for each intermediate value's type": the handler lookup and the registration that feeds it (contracts of C13)
    from contracts import C13
    cs += common.shared(C13, ['core.TargetRegistry.get_handler', 'core.TargetRegistry.get_type_map', 'core.TargetRegistry._get_closest_type',
                              'core.TargetRegistry.register', 'core.TargetRegistry.__init__', 'core.TargetRegistry._register_default_types'])
    # every path segment is argument-evaluated (arg_val): a non-spec segment such as a tuple or namedtuple key is passed through as it is
    from contracts import C08
    cs += common.shared(C08, ['core.arg_val', 'core._ArgValuator.mode'])
    # round-5 dependencies: how a Path is built from its parts (a nested Path keeps its steps' access kinds), the recorder, scope lookup
    from contracts import C18, C07, C14
    cs += common.shared(C18, ['core.Path.__init__'])
    cs += common.shared(C02, ['core._t_child'])
    cs += common.shared(C07, ['core._s_first_magic'])
    cs += common.shared(C14, ['core._extend_children'])
    return cs


from contracts import native as _n
_PT = ["{'a': {'b': {'c': 1}}}", "{'a': [10, {'b': 2}, 30]}", "{'a': None}", "{'a': (1, 2, 3)}", "type('O', (), {'a': {'b': 1}})()", "[]", "{'a': {'b': []}}",
       "OrderedDict([('a', {'b': 1})])"]
_PS = ["'a'", "'a.b'", "'a.b.c'", "'a.1'", "'a.1.b'", "'a.-1'", "'a.-4'", "'a.-7'", "'a.9'", "'a.x.y'", "'zz'", "Path('a', 'b')", "Path('a', 1, 'b')", "Path('a', None)", "Path(T['a'], 'b')",
       "Path('a', T[1])", "Path('a', 1, 'never')", "Path('a', 'b', 'c', 'd')", "Path()", "Path(1)"]
NATIVE = {
    'core._t_eval': _n.differ('core._t_eval', 'ref_t.teval_ref',
                              lambda: [(t, 'Path.from_text(%s).path_t' % s if s[0] == "'" else '%s.path_t' % s) for t in _PT for s in _PS],
                              prelude='from collections import OrderedDict'),
    'core._get_sequence_item': _n.differ('core._get_sequence_item', 'ref_t.get_sequence_item_ref',
                                         lambda: [(t, str(i)) for t in ("[1, 2, 3]", "(1, 2)", "[]", "'abc'") for i in
                                                  list(range(-8, 8)) + ["'1'", "'-2'", "None", "'x'", "1.5"]], mode='handler2'),
}
def bounded_registered_access(tier, seed):
    """registration histories (including lookups made BEFORE a registration, which fill the handler memo) against the nearest-registered-type
    oracle: the stand-in of C13, run here because C01's 'access registered for the value's type' rests on it"""
    import json, os
    from contracts import C13
    r = C13.bounded_registration_orders(tier, seed)
    # user-registration defects already recorded as open findings of C13 (their carve-out keys) are C13's to report: C01 quantifies over the
    # default-registered target types, so only failures outside those recorded keys are reported here
    kf = json.load(open(os.path.join(os.path.dirname(os.path.dirname(os.path.abspath(__file__))), 'known_findings.json')))['findings']
    c13_keys = {k['bounded_key'] for k in kf if k['property'] == 'C13' and k['status'] == 'open' and k.get('bounded_key')}
    return dict(r, name='(C13) ' + r['name'], failures=[f for f in r['failures'] if f.get('key') not in c13_keys],
                bound=r.get('bound', '') + '; failures under the open C13 finding keys %s are reported by C13, not here' % sorted(c13_keys))


from contracts import extra as _extra
from contracts import extra as _extra2
BOUNDED = [bounded_registered_access, _extra.bounded_from_text, _extra2.bounded_path_composition]
ASSUMPTIONS = C02.ASSUMPTIONS + [
    'the get handler chosen for a value is TargetRegistry.get_handler(\'get\', value): get_handler / register / _get_closest_type are under contract here too (shared with C13); tree construction is bounded (C13 stand-in run here); the default table is read natively from the initialised registry',
    'copy.copy of the PathAccessError in glom() preserves class, exc, path and part_idx (C04)',
]
TRUSTED = C02.TRUSTED
EXPLANATION = ('the path walk _t_eval is proved equal to the reference walk (part index = position of the first failing segment, the lookup error is carried, '
               'nothing later is touched, the very object is returned); _get_sequence_item, Path.glomit, the str shortcut of AUTO and PathAccessError.__init__ '
               'are under contract; class facts and the default handler table are checked on the imported working tree.')
CANARIES = [c for c in C02.CANARIES if c['only'] == ['core._t_eval']] + [
    {'name': 'P branch: catches fewer errors', 'module': 'core', 'only': ['core._t_eval'], 'expect': ['core._t_eval'],
     'old': "                cur = get(cur, arg)\n            except Exception as e:", 'new': "                cur = get(cur, arg)\n            except LookupError as e:"},
    {'name': 'sequence get: index not coerced', 'module': 'core', 'only': ['core._get_sequence_item'], 'expect': ['core._get_sequence_item'],
     'old': "    return target[int(index)]", 'new': "    return target[index]"},
]
