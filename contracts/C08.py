"""C08 — modes apply exactly to the wrapped spec; Fill and argument mode keep shape."""
from pyvc.verify import Post, Case, Equiv, NativeFacts
from contracts import common

PROPERTY = 'C08'
REF_MODULES = ['ref_core', 'ref_match', 'ref_reduce', 'ref_auto', 'ref_extra', 'h_path']


def config(cfg):
    common.apply(cfg)
    cfg.summaries['core._ArgValuator'] = 'new_argvaluator'
    cfg.scope_key_types.update({'grouping_ACC_TREE': 'dict'})


def _nosum(*names):
    def f(cfg):
        for n in names:
            cfg.summaries.pop(n, None)
    return f


def contracts():
    cs = []
    cs.append(Equiv('core.chain_child', 'ref_core.chain_child_ref', args={'scope': 'chainmap'}))
    cs.append(Equiv('core._glom', 'ref_core.glom_inner_ref', config=_nosum('core._glom'), args={'target': 'ref', 'spec': 'ref', 'scope': 'chainmap'},
                    loops={1: dict(vars=[('cur_scope', 'chainmap'), ('e', 'ref')], ref_vars=[('ancestor', 'chainmap'), ('e', 'ref')])}))
    cs.append(Equiv('core.arg_val', 'ref_core.arg_val_ref', config=_nosum('core.arg_val'), args={'target': 'ref', 'arg': 'ref', 'scope': 'chainmap'}))
    cs.append(Equiv('core.Fill.glomit', 'ref_core.fill_glomit_ref', args={'self': 'inst:core.Fill', 'target': 'ref', 'scope': 'chainmap'}))
    cs.append(Equiv('core.Auto.glomit', 'ref_core.auto_glomit_ref', args={'self': 'inst:core.Auto', 'target': 'ref', 'scope': 'chainmap'}))
    cs.append(Equiv('matching.Match.glomit', 'ref_match.match_glomit_ref', args={'self': 'inst:matching.Match', 'target': 'ref', 'scope': 'chainmap'}))
    cs.append(Equiv('grouping.Group.glomit', 'ref_reduce.group_glomit_ref', args={'self': 'inst:grouping.Group', 'target': 'ref', 'scope': 'chainmap'},
                    loops={1: dict(vars=[('ret', 'ref'), ('last', 'ref'), ('self', 'inst:grouping.Group'), ('scope', 'chainmap')],
                                   ref_vars=[('result', 'ref'), ('previous', 'ref'), ('self', 'inst:grouping.Group'), ('scope', 'chainmap')])}))
    cs.append(Equiv('core.FILL', 'ref_core.fill_mode_ref', args={'target': 'ref', 'spec': 'ref', 'scope': 'chainmap'},
                    loops={1: dict(vars=[('recurse', 'ref')], ref_vars=[('recurse', 'ref')]), 2: dict(vars=[('recurse', 'ref')], ref_vars=[('recurse', 'ref')])}))
    # specs that are NOT mode wrappers must not touch the mode: Pipe (a plain chain), Val, Spec
    cs.append(Equiv('core.Pipe.glomit', 'ref_auto.pipe_ref', args={'self': 'inst:core.Pipe', 'target': 'ref', 'scope': 'chainmap'}))
    cs.append(Equiv('core.Spec.glomit', 'ref_auto.spec_ref', args={'self': 'inst:core.Spec', 'target': 'ref', 'scope': 'chainmap'}))
    cs.append(Equiv('core._ArgValuator.mode', 'ref_core.argmode_ref', args={'self': 'inst:core._ArgValuator', 'target': 'ref', 'spec': 'ref', 'scope': 'chainmap'},
                    loops={1: dict(vars=[('recur', 'ref')], ref_vars=[('recur', 'ref')]), 2: dict(vars=[('recur', 'ref')], ref_vars=[('recur', 'ref')]),
                           3: dict(vars=[('recur', 'ref')], ref_vars=[('recur', 'ref')])}))
    from contracts import X_ctor
    cs += common.shared(X_ctor, ['core._is_spec', 'core.Auto.__init__', 'core.Fill.__init__', 'grouping.Group.__init__', 'matching.Match.__init__'])
    from contracts import C03
    cs += common.shared(C03, ['core.Coalesce.glomit', 'core._handle_tuple', 'core._has_callable_glomit', 'core.Call.glomit'])
    from contracts import C15 as _c15, C18 as _c18
    cs += common.shared(_c15, ['grouping.target_iter'])
    cs += common.shared(_c18, ['core.Path.__init__'])
    cs += common.shared(X_ctor, ['core._ArgValuator.__init__'])
    return cs


from contracts import native as _n
_MODES = ["(Fill({'k': T['a']}), 'k')", "(Match({'a': int}), 'a')", "Switch([(Match(dict), ('a', lambda x: x + 1))])", "Fill({'k': (T['a'], 'lit', [T['a']])})",
          "(Auto('a'), lambda x: x + 1)", "{'x': Fill((T['a'], 'a')), 'y': 'a'}", "Fill([Auto('a'), 'a'])", "Match({'a': Auto(lambda x: x + 1)})",
          "(Group([T]) if False else Fill({T['a']: 'a'}), lambda d: sorted(d.items()))", "Coalesce(Fill({'z': T['zz']}), 'a')", "Fill({1, 2}) if False else Fill(frozenset([T['a']]))",
          "Call(lambda *a, **k: (a, sorted(k.items())), args=[T['a'], 'a', [T['a'], len]], kwargs={'k': (T['a'], {'n': T['a']})})",
          "(S(v=T['a']), Fill({'v': S['v']}), 'v')", "Match(Switch({dict: Auto('a'), int: T}))"]
NATIVE = {
    'core.chain_child': _n.differ('core.Pipe.glomit', 'ref_core.pipe_via_ref', lambda: [("{'a': 1}", 'Pipe(*%s)' % m if m.startswith('(') else 'Pipe(%s)' % m) for m in _MODES], mode='method'),
}


def bounded_cyclic_arguments(tier, seed):
    """argument mode reproduces self-referential containers with the same cyclic shape (the local rule -- register before recursing -- is
    proved; the graph isomorphism as a whole is checked on enumerated shapes)"""
    from glom import glom, T, Call
    cases, failures = 0, []
    def shapes():
        a = [1, T['x']]; a.append(a); yield 'list-self', a
        d = {'k': T['x']}; d['self'] = d; yield 'dict-self', d
        a = [T['x']]; b = {'a': a}; a.append(b); yield 'list-dict-cycle', a
        a = []; b = [a, a]; yield 'shared', b
        a = [T['x']]; t = (a, a); a.append(t) if False else None; yield 'tuple-shared', [t, t]
    def shape_of(o, seen=None, path=''):
        seen = {} if seen is None else seen
        if id(o) in seen:
            return ('ref', seen[id(o)])
        if isinstance(o, list):
            seen[id(o)] = path
            return ('list', [shape_of(x, seen, path + '/%d' % i) for i, x in enumerate(o)])
        if isinstance(o, dict):
            seen[id(o)] = path
            return ('dict', [(k, shape_of(v, seen, path + '/%s' % k)) for k, v in o.items()])
        if isinstance(o, tuple):
            return ('tuple', [shape_of(x, seen, path + '/%d' % i) for i, x in enumerate(o)])
        return ('leaf', repr(o))
    for name, spec in shapes():
        cases += 1
        got = glom({'x': 7}, Call(lambda v: v, args=(spec,)))
        exp = shape_of(spec)
        import json
        exp_s = json.dumps(exp).replace(json.dumps(repr(T['x'])), json.dumps(repr(7)))
        if json.dumps(shape_of(got)) != exp_s or got is spec:
            failures.append({'key': 'cyclic-arg', 'input': name, 'observed': json.dumps(shape_of(got))[:200], 'expected': exp_s[:200], 'replay_code': None})
    return {'name': 'cyclic / shared argument containers keep their shape', 'bound': '5 enumerated shapes', 'cases': cases, 'failures': failures, 'label': 'bounded'}



def bounded_fill_shapes(tier, seed):
    """Fill mode rebuilds containers of the same shape with every embedded T leaf replaced by its value -- in value, item AND key position,
    at any depth -- against a direct recursive oracle.  Bound: random literals of depth <= 3 (quick 300, thorough 3000) over
    dict / list / tuple / set / frozenset with T leaves and constants; keys are constants, T leaves, tuples and frozensets of them."""
    import random
    from glom import glom as G, T, Fill, Auto
    rnd = random.Random(seed or 1)
    target = {'a': 1, 'b': ['x', 'y'], 'c': {'d': 'dee'}}
    leaves = [(T['a'], 1), (T['b'][0], 'x'), (T['c']['d'], 'dee'), ('lit', 'lit'), (7, 7), (None, None)]
    def gen_key(depth):
        r = rnd.random()
        if r < 0.5 or depth <= 0:
            return rnd.choice(leaves)
        parts = [gen_key(depth - 1) for _ in range(rnd.randint(1, 2))]
        if r < 0.8:
            return tuple(p[0] for p in parts), tuple(p[1] for p in parts)
        return frozenset(p[0] for p in parts), frozenset(p[1] for p in parts)
    def gen(depth):
        r = rnd.random()
        if depth <= 0 or r < 0.3:
            return rnd.choice(leaves)
        kind = rnd.choice(['dict', 'list', 'tuple', 'set', 'frozenset'])
        if kind == 'dict':
            ks = [gen_key(depth - 1) for _ in range(rnd.randint(1, 2))]
            vs = [gen(depth - 1) for _ in ks]
            try:
                return {k[0]: v[0] for k, v in zip(ks, vs)}, {k[1]: v[1] for k, v in zip(ks, vs)}
            except TypeError:
                return rnd.choice(leaves)
        items = [gen(depth - 1) if kind in ('list', 'tuple') else gen_key(depth - 1) for _ in range(rnd.randint(0, 3))]
        ctor = {'list': list, 'tuple': tuple, 'set': set, 'frozenset': frozenset}[kind]
        try:
            return ctor(i[0] for i in items), ctor(i[1] for i in items)
        except TypeError:
            return rnd.choice(leaves)
    fixed = [({(T['a'], T['b'][0]): T['c']['d']}, {(1, 'x'): 'dee'}), ({frozenset([T['a']]): [T['a']]}, {frozenset([1]): [1]}),
             ({'k': {(T['a'], ('lit', T['a'])): 0}}, {'k': {(1, ('lit', 1)): 0}}), ([{T['a']: T['a']}], [{1: 1}])]
    cases, failures = 0, []
    for spec, want in fixed + [gen(3) for _ in range(3000 if tier == 'thorough' else 300)]:
        for wrap in (lambda s: Fill(s), lambda s: ('c', Auto(T), lambda t: 0, Fill(s)) if False else {'out': Fill(s)}):
            cases += 1
            try:
                got = G(target, wrap(spec))
                got = got['out'] if isinstance(got, dict) and set(got) == {'out'} and not (isinstance(spec, dict) and set(spec) == {'out'}) else got
            except Exception as e:
                got = repr(e)
            if got != want or type(got) is not type(want):
                failures.append({'key': 'fill-shape', 'input': repr(spec)[:200], 'observed': repr(got)[:200], 'expected': repr(want)[:200], 'replay_code': None})
                break
        if len(failures) >= 3:
            break
    return {'name': 'Fill mode vs a recursive reconstruction oracle (T leaves in value, item and key position)', 'label': 'bounded', 'cases': cases,
            'bound': '4 fixed + random literals of depth <= 3; plain and nested-in-Auto-dict use', 'failures': failures}

BOUNDED = [bounded_cyclic_arguments, bounded_fill_shapes]
ASSUMPTIONS = [
    'G-contract: a child evaluation leaves MODE / MIN_MODE of its parent frame alone (G3) -- the obligation side of this is the contract on _glom proved here: the child frame gets the parent values and wrappers write their own frame',
    'opaque user primitives; dict / list / tuple / set specs behave like builtins',
    'isomorphism of arbitrary cyclic argument graphs is not one theorem: the local rule (register the rebuilt object before recursing) is proved, shapes are bounded',
]
TRUSTED = ['reference semantics contracts/ref_core.py']
EXPLANATION = ('_glom (child frame inherits MODE/MIN_MODE; dispatch; error bookkeeping), chain_child (the re-wired scope gets the enclosing mode back), arg_val, '
               'Fill/Auto/Match/Group.glomit (mode written into their own frame), FILL and _ArgValuator.mode are proved equal to reference semantics.')
CANARIES = [
    {'name': 'chain_child: mode not restored', 'module': 'core', 'only': ['core.chain_child'], 'expect': ['core.chain_child'],
     'old': "    nxt_in_chain.maps[0][MODE] = scope.maps[0][MODE]\n", 'new': ""},
    {'name': 'argmode: cache stored after recursion', 'module': 'core', 'only': ['core._ArgValuator.mode'], 'expect': ['core._ArgValuator.mode'],
     'old': "            result = self.cache[id(spec)] = type(spec)()\n", 'new': "            result = type(spec)()\n"},
    {'name': 'FILL: tuple rebuilt as list', 'module': 'core', 'only': ['core.FILL'], 'expect': ['core.FILL'],
     'old': "        if type(spec) is list:\n            return result\n        return type(spec)(result)", 'new': "        return result"},
]
