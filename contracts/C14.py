"""C14 — wildcards enumerate children / descendants once, tolerate misses, terminate."""
from pyvc.verify import Post, Case, Equiv, NativeFacts
from contracts import extra
from contracts import common, C02, C12

PROPERTY = 'C14'
REF_MODULES = ['ref_t', 'ref_mut', 'h_path', 'ref_extra', 'ref_core', 'ref_registry', 'ref_match', 'ref_reduce', 'ref_auto']


def config(cfg):
    C02.config(cfg)
    cfg.summaries['mutation.Delete._del_one'] = 'del_one'


def _nosum(*names):
    def f(cfg):
        for n in names:
            cfg.summaries.pop(n, None)
            cfg.pure_models.pop(n, None)
    return f


def contracts():
    cs = []
    cs += [c for c in C02.contracts() if c.label == 'core._t_eval']
    cs.append(Equiv('core._extend_children', 'ref_t.extend_children_ref', config=_nosum('core._extend_children'),
                    args={'children': 'list', 'item': 'ref', 'get_handler': 'ref'},
                    loops={1: dict(vars=[('children', 'list'), ('item', 'ref'), ('get', 'ref')], ref_vars=[('children', 'list'), ('item', 'ref'), ('get', 'ref')])}))
    cs += [c for c in C12.contracts() if c.label == 'mutation._apply_for_each']
    for meth, code in (('__star__', 'x'), ('__starstar__', 'X')):
        cs.append(Post('core.TType.%s' % meth, helpers='h_path', cases=[
            Case('T-rooted', args={'self': 'inst:core.TType'}, requires=C02.TS + ['len(self.__ops__) >= 1', 'self.__ops__[0] is not A'],
                 ensures=['same(result.__ops__, self.__ops__ + (%r, None))' % code])]))

    def ops_of(text):
        import glom.core as gc
        return gc.Path.from_text(text).path_t.__ops__
    cs.append(NativeFacts('C14.from_text-star-mapping', [
        ("'a.*.b'", "Path.from_text('a.*.b') has ops (T, 'P', 'a', 'x', None, 'P', 'b')", lambda f: ops_of('a.*.b')[1:] == ('P', 'a', 'x', None, 'P', 'b')),
        ("'**'", "Path.from_text('**') has ops (T, 'X', None)", lambda f: ops_of('**')[1:] == ('X', None)),
        ("'a.**.*'", "Path.from_text('a.**.*')", lambda f: ops_of('a.**.*')[1:] == ('P', 'a', 'X', None, 'x', None)),
        ("'a*'", "a segment that merely contains a star is a plain segment", lambda f: ops_of('a*.b')[1:] == ('P', 'a*', 'P', 'b')),
    ], func='core.Path.from_text'))
    pass
    cs += common.shared(extra, ['core.Path.from_text', 'core.TType.__stars__'])
    # "Assign/Delete through wildcards act on every entry": the per-entry application (contracts shared with C11 / C12)
    from contracts import C11
    cs += common.shared(C12, ['mutation.Delete.glomit', 'mutation.Delete._del_one'])
    cs += common.shared(C11, ['mutation.Assign.glomit'])
    # what counts as a child is decided by the default 'keys' / 'iterate' / 'get' registrations and their order (shared with C13)
    from contracts import C13
    cs += common.shared(C13, ['core.TargetRegistry._register_default_types'])
    from contracts import C08 as _c08, X_ctor as _xc
    cs += common.shared(C13, ['core.TargetRegistry.get_handler', 'core.TargetRegistry.get_type_map', 'core.TargetRegistry._get_closest_type', 'core.TargetRegistry.register'])
    cs += common.shared(_c08, ['core.arg_val', 'core._ArgValuator.mode'])
    cs += common.shared(C11, ['core._assign_op'])
    cs += common.shared(extra, ['mutation.Assign.__init__', 'mutation.Delete.__init__'])
    cs += common.shared(_xc, ['core.Val.__init__'])
    return cs


from contracts import native as _n


def bounded_descendants(tier, seed):
    """`*` / `**` against an independent breadth-first oracle on shared, cyclic and failing structures; also terminates (each run under a
    step budget).  Bound: the enumerated structure catalogue x 9 paths."""
    import glom
    from glom import glom as G, T, Path
    class Obj:
        def __init__(self, **kw):
            self.__dict__.update(kw)
    class Flaky(dict):
        def __getitem__(self, k):
            if k == 'bad':
                raise RuntimeError('nope')
            return dict.__getitem__(self, k)
    def structures():
        yield 'nested', {'a': [1, {'b': 2}], 'c': (3, 4)}
        shared = [1, 2]
        yield 'dag', {'x': shared, 'y': shared, 'z': {'w': shared}}
        cyc = {'a': 1}; cyc['self'] = cyc
        yield 'cycle-root', cyc
        inner = {'k': 1}; outer = {'in': inner}; inner['out'] = outer
        yield 'cycle-2', {'top': outer}
        lst = [1]; lst.append(lst)
        yield 'cycle-list', lst
        yield 'object', Obj(p=1, q=Obj(r=[1, 2]))
        yield 'object-underscore', Obj(left={'n': 1}, _spare={'n': 5}, __mangled=[{'n': 6}], right=Obj(_n=7, n=8))
        class Settings:
            """a class object as target: its __dict__ is a read-only mapping (mappingproxy), still attribute-keyed"""
            __slots__ = ()
            debug = True
            cfg = {'n': 1}
        yield 'class-object', Settings
        yield 'class-object-nested', {'conf': Settings, 'other': [Settings]}
        yield 'equal-distinct', {'east': {'cfg': {'n': 1, 'keep': 2}}, 'west': {'cfg': {'n': 1, 'keep': 2}}}
        yield 'flaky', Flaky(first={'n': 1}, bad={'n': 2}, last={'n': 3})
        yield 'string', {'s': 'abc', 't': {1, 2}}
        yield 'scalar', 5
        yield 'empty', {}
        import collections
        class Rec(dict):
            """a dict subclass whose instances also carry a __dict__"""
        rec = Rec(v={'n': 1}, w={'n': 2}); rec.note = 'attribute, not an entry'
        yield 'dict-subclass', {'rows': [rec, Rec(v={'n': 3})]}
        yield 'dict-subclass-root', rec
        yield 'counter', collections.Counter('aab')
        yield 'ordered', collections.OrderedDict([('z', {'n': 1}), ('a', {'n': 2})])
        dd = collections.defaultdict(list); dd['k'].append({'n': 1})
        yield 'defaultdict', dd
    def children(v):
        """independent of the registry: mapping values (key order; a failing key is dropped), sequence / set items, attribute values of
        plain objects (in __dict__ order); strings and scalars have no children"""
        if isinstance(v, dict):
            out = []
            for k in list(v.keys()):
                try:
                    out.append(v[k])
                except Exception:
                    pass
            return out
        if isinstance(v, (list, tuple, set, frozenset)):
            return list(v)
        if isinstance(v, (str, bytes, int, float, type(None))):
            return []
        if hasattr(v, '__dict__'):
            return [getattr(v, k) for k in list(vars(v))]
        return []
    def descendants(v):
        out, seen, queue = [v], {id(v)}, [v]
        while queue:
            cur = queue.pop(0)
            for ch in children(cur):
                out.append(ch)
                if id(ch) not in seen:
                    seen.add(id(ch))
                    queue.append(ch)
        return out
    cases, failures = 0, []
    def same(a, b):
        return len(a) == len(b) and all(x is y or (type(x) in (int, str) and x == y) for x, y in zip(a, b))
    for name, s in structures():
        cases += 1
        got = G(s, '*')
        if not same(got, children(s)):
            failures.append({'key': 'star', 'input': name, 'observed': repr(got)[:150], 'expected': repr(children(s))[:150], 'replay_code': None})
        cases += 1
        got = G(s, '**')
        exp = descendants(s)
        if not same(got, exp):
            failures.append({'key': 'starstar', 'input': name, 'observed': 'len %d: %s' % (len(got), repr(got)[:120]), 'expected': 'len %d: %s' % (len(exp), repr(exp)[:120]),
                             'replay_code': None})
        for p in ('*.n', '**.n', '*.*', 'a.*', T['a'].__star__(), '**.zz'):
            cases += 1
            try:
                got = G(s, p)
                assert isinstance(got, list)
            except glom.PathAccessError:
                pass
            except Exception as e:
                failures.append({'key': 'after-star', 'input': '%s / %r' % (name, p), 'observed': repr(e)[:150], 'expected': 'a list or PathAccessError', 'replay_code': None})
    return {'name': 'wildcards vs breadth-first oracle (shared / cyclic / failing structures)', 'bound': '19 structures x 8 paths', 'cases': cases, 'failures': failures,
            'label': 'bounded'}


from contracts import extra as _extra
BOUNDED = [bounded_descendants, _extra.bounded_from_text]
NATIVE = {
    'mutation._apply_for_each': C12.NATIVE['mutation._apply_for_each'],
}
ASSUMPTIONS = C02.ASSUMPTIONS + [
    'termination of the ** traversal (finite reachable object graph, each identity expanded once) is not discharged as a ranking-function obligation; '
    'the once-only rule is part of the proved loop body (an item is expanded iff its id is not yet in the visited set) and cyclic structures are covered by the bounded stand-in',
    'registered keys / get / iterate handlers are opaque primitives',
]
TRUSTED = C02.TRUSTED + ['breadth-first oracle in contracts/C14.py (bounded stand-in)']
EXPLANATION = ('the wildcard branch of _t_eval (children of the current value for *, breadth-first descendants with an identity-based visited set seeded with the root for **, '
               'remaining steps evaluated per entry with PathAccessError entries dropped, one list level per wildcard), _extend_children (per-key tolerance), TType.__stars__ and '
               '_apply_for_each are proved equal to reference semantics.')
CANARIES = [
    {'name': 'X: visited set ignored', 'module': 'core', 'only': ['core._t_eval'], 'expect': ['core._t_eval'],
     'old': "                    if id(item) not in sofar:\n                        sofar.add(id(item))\n                        _extend_children", 'new': "                    if True:\n                        sofar.add(id(item))\n                        _extend_children"},
    {'name': 'wildcard: non-access errors swallowed', 'module': 'core', 'only': ['core._t_eval'], 'expect': ['core._t_eval'],
     'old': "                except PathAccessError:\n                    pass", 'new': "                except Exception:\n                    pass"},
]
