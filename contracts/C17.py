"""C17 — Iter pipelines equal the itertools composition, stay lazy, never mutate specs."""
from pyvc.verify import Post, Case, Equiv, NativeFacts
from contracts import common

PROPERTY = 'C17'
REF_MODULES = ['ref_stream', 'ref_extra', 'ref_core']


def config(cfg):
    common.apply(cfg)
    cfg.field_types.update({'streaming.Iter._iter_stack': 'list', 'core.Invoke._args': 'seq', 'core.Invoke._cur_kwargs': 'dict'})
    cfg.pure_ctors.add('matching.Check')


def _nosum(*names):
    def f(cfg):
        for n in names:
            cfg.summaries.pop(n, None)
    return f


def _gen(cfg):
    cfg.hooks['run_generators'] = True


KINDS = ['map', 'filter', 'windowed', 'split', 'flatten', 'unique', 'limit', 'takewhile', 'dropwhile', 'slice2']


def contracts():
    cs = []
    cs.append(Equiv('streaming.Iter._iterate', 'ref_stream.iterate_ref', config=_gen, args={'self': 'inst:streaming.Iter', 'target': 'ref', 'scope': 'chainmap'},
                    loops={1: dict(vars=[('self', 'inst:streaming.Iter'), ('scope', 'chainmap'), ('base_path', 'list')],
                                   ref_vars=[('self', 'inst:streaming.Iter'), ('scope', 'chainmap'), ('base_path', 'list')], locals=['yld'])}))
    cs.append(Equiv('streaming.Iter.glomit', 'ref_stream.glomit_ref', args={'self': 'inst:streaming.Iter', 'target': 'ref', 'scope': 'chainmap'},
                    loops={1: dict(vars=[('iterator', 'ref'), ('scope', 'chainmap')], ref_vars=[('stream', 'ref'), ('scope', 'chainmap')], locals=['_', 'callback', 'entry'])}))
    cs.append(Equiv('streaming.Iter._add_op', 'ref_stream.add_op_ref', args={'self': 'inst:streaming.Iter', 'opname': 'ref', 'args': 'ref', 'callback': 'ref'}))
    cs.append(Equiv('ref_stream.stage_impl', 'ref_stream.stage_ref', label='LEMMA C17.stage', args={'kind': 'str', 'p1': 'ref', 'p2': 'ref', 'target': 'ref', 'scope': 'chainmap'},
                    cases=[(k, ['kind == %r' % k]) for k in KINDS]))
    cs.append(Equiv('ref_stream.order_impl', 'ref_stream.order_ref', label='LEMMA C17.order', args={'a': 'ref', 'b': 'ref', 'target': 'ref', 'scope': 'chainmap'}))
    cs.append(Equiv('core.Invoke.constants', 'ref_stream.invoke_constants_ref', args={'self': 'inst:core.Invoke', 'a': 'tuple:ref', 'kw': 'kw:x'}))
    cs.append(Equiv('core.Invoke.specs', 'ref_stream.invoke_specs_ref', args={'self': 'inst:core.Invoke', 'a': 'tuple:ref', 'kw': 'kw:x'}))
    cs.append(Equiv('core.Invoke.star', 'ref_stream.invoke_star_ref', args={'self': 'inst:core.Invoke', 'args': 'ref', 'kwargs': 'ref'}))
    cs.append(Equiv('streaming.Iter.all', 'ref_stream.iter_all_ref', args={'self': 'inst:streaming.Iter'}))
    cs.append(Equiv('streaming.Iter.first', 'ref_stream.iter_first_ref', args={'self': 'inst:streaming.Iter', 'key': 'ref', 'default': 'ref'}))
    cs.append(Equiv('streaming.First.__init__', 'ref_stream.first_init_ref', args={'self': 'inst:streaming.First', 'key': 'ref', 'default': 'ref'},
                    config=lambda cfg: cfg.pure_ctors.update({'core.Spec', 'core.Call'})))
    cs.append(Equiv('streaming.First.glomit', 'ref_stream.first_glomit_ref', args={'self': 'inst:streaming.First', 'target': 'ref', 'scope': 'chainmap'}))
    from contracts import X_ctor
    cs += common.shared(X_ctor, ['streaming.Iter.__init__'])
    cs += common.shared(X_ctor, ['core.Pipe.__init__', 'core.Spec.__init__'])
    from contracts import extra as _ex17
    cs += common.shared(_ex17, ['core.Call.__init__'])
    return cs


def bounded_pipelines(tier, seed):
    """stage sequences up to length 2 (quick) / 3 (thorough) over the ten stage kinds with small parameters, on finite and infinite sources,
    against the hand-written itertools composition; laziness measured with a pull-counting source; builder immutability by re-using prefixes."""
    import itertools
    from itertools import islice, takewhile, dropwhile, chain, count
    from boltons.iterutils import chunked_iter, windowed_iter, split_iter, unique_iter
    from glom import glom, T, Iter, SKIP, STOP
    stages = {
        'map': (lambda it: it.map(lambda x: x * 2), lambda s: map(lambda x: x * 2, s)),
        'filter': (lambda it: it.filter(lambda x: x % 3), lambda s: filter(lambda x: x % 3, s)),
        'chunked': (lambda it: it.chunked(2), lambda s: chunked_iter(s, 2)),
        'chunked-fill': (lambda it: it.chunked(3, fill=None), lambda s: chunked_iter(s, 3, fill=None)),
        'windowed': (lambda it: it.windowed(2), lambda s: windowed_iter(s, 2)),
        'unique': (lambda it: it.unique(lambda x: x % 4 if isinstance(x, int) else repr(x)), lambda s: unique_iter(s, key=lambda x: x % 4 if isinstance(x, int) else repr(x))),
        'slice': (lambda it: it.slice(1, 6, 2), lambda s: islice(s, 1, 6, 2)),
        'limit': (lambda it: it.limit(4), lambda s: islice(s, 4)),
        'takewhile': (lambda it: it.takewhile(lambda x: x != 7), lambda s: takewhile(lambda x: x != 7, s)),
        'dropwhile': (lambda it: it.dropwhile(lambda x: isinstance(x, int) and x < 2), lambda s: dropwhile(lambda x: isinstance(x, int) and x < 2, s)),
    }
    listy = {'chunked', 'chunked-fill', 'windowed'}
    class Counting:
        def __init__(self, it):
            self.it, self.pulled = iter(it), 0
        def __iter__(self):
            return self
        def __next__(self):
            v = next(self.it)
            self.pulled += 1
            return v
    cases, failures, seen = 0, [], set()
    maxlen = 3 if tier == 'thorough' else 2
    for n in range(1, maxlen + 1):
        for seq in itertools.product(sorted(stages), repeat=n):
            if any(a in listy for a in seq[:-1]):
                continue          # element functions above assume numbers
            spec = Iter()
            for name in seq:
                spec = stages[name][0](spec)
            def ref(src):
                s = src
                for name in seq:
                    s = stages[name][1](s)
                return s
            cases += 1
            try:
                got = list(glom(list(range(10)), spec))
                exp = list(ref(iter(range(10))))
                ok = got == exp
                # laziness: k outputs from an infinite source pull no more than the reference composition does
                src1, src2 = Counting(range(400)), Counting(range(400))      # long enough to stand for an unbounded source, finite so that every composition ends
                g = glom(src1, spec)
                out1 = list(islice(g, 3)); out2 = list(islice(ref(src2), 3))
                ok = ok and out1 == out2 and src1.pulled <= src2.pulled
            except Exception as e:
                ok, got, exp = False, repr(e), 'no error'
            if not ok and seq not in seen:
                seen.add(seq)
                if len(failures) < 3:
                    failures.append({'key': 'pipeline', 'input': list(seq), 'observed': repr(got)[:150], 'expected': repr(exp)[:150], 'replay_code': None})
    # every argument shape of slice / limit (None in any position) against islice with the very same arguments
    for args in [(3,), (None,), (0,), (2, None), (0, None), (None, 4), (2, 6), (None, None), (1, None, 2), (None, None, 3), (None, 7, 2), (1, 8, 3), (0, None, None),
                 (2, None, None), (None, None, None), (None, 5, None)]:
        cases += 1
        try:
            got = list(glom(list(range(10)), Iter().slice(*args)))
            exp = list(islice(range(10), *args))
        except Exception as e:
            got, exp = repr(e), 'no error'
        if got != exp:
            failures.append({'key': 'pipeline', 'input': 'slice%r' % (args,), 'observed': repr(got)[:150], 'expected': repr(exp)[:150], 'replay_code': None})
    # chaining never alters the spec it is called on, for EVERY ordered pair of stage kinds (a prefix extended two different ways, then re-used)
    for a in sorted(stages):
        for b in sorted(stages):
            if a in listy:
                continue
            cases += 1
            base = stages[a][0](Iter())
            before = list(glom(list(range(10)), base))
            ext1 = stages[b][0](base)
            ext2 = stages['limit'][0](stages['limit'][0](base)) if b == 'limit' else stages[b][0](base)
            if b == 'limit':
                ext2 = base.limit(2)          # a tighter limit after the first extension
                ext1 = base.limit(7)
            after = list(glom(list(range(10)), base))
            exp1 = list((lambda s_: islice(s_, 7))(stages[a][1](iter(range(10))))) if b == 'limit' else list(stages[b][1](stages[a][1](iter(range(10)))))
            got1 = list(glom(list(range(10)), ext1))
            if before != after or got1 != exp1 or ext1 is base or ext2 is base:
                failures.append({'key': 'pipeline', 'input': 'prefix %s extended with %s and re-used' % (a, b),
                                 'observed': repr({'prefix before': before, 'prefix after': after, 'extended': got1, 'same object': ext1 is base or ext2 is base})[:200],
                                 'expected': repr({'prefix': before, 'extended': exp1})[:200], 'replay_code': None})
    # the sentinel given to Iter(...) ends the stream whichever stages are chained after it
    for name in sorted(stages):
        if name in listy:
            continue
        cases += 1
        data = [1, 2, 3, None, 5, 6]
        try:
            got = list(glom(data, stages[name][0](Iter(sentinel=None))))
        except Exception as e:
            got = 'raised %r (an item after the sentinel reached the stage)' % (e,)
        exp = list(stages[name][1](iter([1, 2, 3])))
        if got != exp:
            failures.append({'key': 'pipeline', 'input': 'Iter(sentinel=None).%s(...) on %r' % (name, data), 'observed': repr(got)[:150], 'expected': repr(exp)[:150],
                             'replay_code': None})
    # a spec object is a description, not a run: applying the same spec again (to another target) starts every stage afresh
    for name in sorted(stages):
        cases += 1
        spec = stages[name][0](Iter())
        first = list(glom([1, 2, 1, 3, 7, 9], spec))
        second = list(glom([3, 1, 4, 1, 5, 9, 2, 6], spec))
        exp = list(stages[name][1](iter([3, 1, 4, 1, 5, 9, 2, 6])))
        if second != exp:
            failures.append({'key': 'pipeline', 'input': 'second application of the same %s spec' % name, 'observed': repr(second)[:150], 'expected': repr(exp)[:150],
                             'replay_code': None})
    # flatten / split on nested data
    for spec, refv in ((Iter().flatten(), lambda: list(chain.from_iterable([[1, 2], [3], []]))), (Iter().split(0), lambda: list(split_iter([1, 0, 2, 3, 0], 0)))):
        cases += 1
        data = [[1, 2], [3], []] if 'flatten' in repr(spec) else [1, 0, 2, 3, 0]
        if list(glom(data, spec)) != refv():
            failures.append({'key': 'pipeline', 'input': repr(spec), 'observed': repr(list(glom(data, spec))), 'expected': repr(refv()), 'replay_code': None})
    cases += 1
    src = Counting(([i] * 2 for i in range(5000)))
    out = list(islice(glom(src, Iter().flatten()), 3))
    if out != [0, 0, 1] or src.pulled > 2:
        failures.append({'key': 'lazy-flatten', 'input': 'Iter().flatten() on an infinite source', 'observed': 'pulled %d for 3 outputs' % src.pulled, 'expected': '<= 2', 'replay_code': None})
    # SKIP / STOP / sentinel, first(), all()
    for spec, exp in ((Iter(lambda x: SKIP if x % 2 else x), [0, 2, 4]), (Iter(lambda x: STOP if x == 3 else x), [0, 1, 2]), (Iter(sentinel=2), [0, 1]), (Iter().all(), [0, 1, 2, 3, 4]),
                      (Iter().first(lambda x: x > 2), 3), (Iter().first(lambda x: x > 9, default='d'), 'd')):
        cases += 1
        got = glom(range(5), spec)
        got = list(got) if not isinstance(got, (list, int, str)) else got
        if got != exp:
            failures.append({'key': 'terminal', 'input': repr(spec), 'observed': repr(got), 'expected': repr(exp), 'replay_code': None})
    # builders never alter the spec they were called on (prefix re-used after being extended)
    from glom import Invoke
    base = Iter().map(lambda x: x + 1)
    r0 = repr(base); l0 = list(glom([1, 2], base))
    ext = [base.filter(lambda x: x > 2), base.limit(1), base.chunked(2), base.map(str).unique()]
    cases += 1
    if repr(base) != r0 or list(glom([1, 2], base)) != l0:
        failures.append({'key': 'builder-immutable', 'input': 'Iter prefix extended four ways', 'observed': repr(base), 'expected': r0, 'replay_code': None})
    f = lambda *a, **k: (a, sorted(k.items()))
    inv = Invoke(f).constants(1, y=3)
    before = glom(None, inv)
    inv.specs(y=T).constants(y=5).star(args=[1])
    cases += 1
    if glom(None, inv) != before:
        failures.append({'key': 'builder-immutable', 'input': 'Invoke prefix extended', 'observed': repr(glom(None, inv)), 'expected': repr(before), 'replay_code': None})
    return {'name': 'Iter pipelines vs itertools composition (values, laziness, builder immutability)', 'bound': 'stage sequences <= %d over 10 stage kinds; finite + infinite sources' % maxlen,
            'cases': cases, 'failures': failures, 'label': 'bounded'}


BOUNDED = [bounded_pipelines]
ASSUMPTIONS = [
    'itertools (map, filter, islice, takewhile, dropwhile, chain.from_iterable) and boltons.iterutils (chunked_iter, windowed_iter, split_iter, unique_iter, first) are opaque library '
    'functions: the pipeline is proved to BE their composition applied in chaining order, and inherits their laziness (how far they read ahead is theirs)',
    'a generator function call returns a generator object determined by the function and its arguments; inside _iterate every yield is an observable event, so '
    '"one source item pulled, evaluated, yielded before the next pull" is the event order proved equal to the reference generator',
    'the chunked stage (its callback closes over a freshly built kwargs dict) and stage sequences are covered by the labelled bounded stand-in, not by a proof',
]
TRUSTED = ['reference semantics contracts/ref_stream.py', 'itertools composition oracle in contracts/C17.py (bounded stand-in)']
EXPLANATION = ('Iter._iterate (generator body: pull / evaluate / SKIP / sentinel-or-STOP / yield order), Iter.glomit (callbacks folded over the reversed stack), Iter._add_op (new object, '
               'new list, self untouched), the stage lemmas (each builder\'s callback is the corresponding itertools / boltons call with the element function t -> G(t, subspec)), '
               'the two-stage order lemma, Invoke.constants / specs / star (copy-on-write) and Iter.all / first are proved equal to reference semantics.')
CANARIES = [
    {'name': '_iterate: look-ahead pull', 'module': 'streaming', 'only': ['streaming.Iter._iterate'], 'expect': ['streaming.Iter._iterate'],
     'old': "            if yld is SKIP:\n                continue\n            elif", 'new': "            if yld is SKIP:\n                continue\n            elif yld is None:\n                next(iterator, None)\n                continue\n            elif"},
    {'name': '_add_op: mutates the stack in place', 'module': 'streaming', 'only': ['streaming.Iter._add_op'], 'expect': ['streaming.Iter._add_op'],
     'old': "        return type(self)(subspec=self.subspec, _iter_stack=[(opname, args, callback)] + self._iter_stack,\n                          sentinel=self.sentinel)",
     'new': "        self._iter_stack.insert(0, (opname, args, callback))\n        return type(self)(subspec=self.subspec, _iter_stack=self._iter_stack, sentinel=self.sentinel)"},
    {'name': 'glomit: callbacks applied newest first', 'module': 'streaming', 'only': ['streaming.Iter.glomit', 'LEMMA C17.order'], 'expect': ['streaming.Iter.glomit', 'LEMMA C17.order'],
     'old': "        for _, _, callback in reversed(self._iter_stack):", 'new': "        for _, _, callback in self._iter_stack:"},
    {'name': 'flatten stage: not lazy', 'module': 'streaming', 'only': ['LEMMA C17.stage'], 'expect': ['LEMMA C17.stage'],
     'old': "            lambda it, scope: chain.from_iterable(it))", 'new': "            lambda it, scope: chain(*it))"},
]
