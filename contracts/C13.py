"""C13 — handlers are chosen by nearest registered type, immediately and in isolation."""
from pyvc.verify import Post, Case, Equiv, NativeFacts
from contracts import common

PROPERTY = 'C13'
REF_MODULES = ['ref_registry', 'ref_extra', 'ref_core', 'ref_auto', 'ref_t', 'ref_reduce', 'ref_mut', 'h_path', 'ref_match']


def config(cfg):
    common.apply(cfg)
    cfg.kwdict_copy_as_dict = True
    cfg.field_types.update({'core.TargetRegistry._type_cache': 'dict', 'core.TargetRegistry._op_type_map': 'dict', 'core.TargetRegistry._op_type_tree': 'dict',
                            'core.TargetRegistry._op_auto_map': 'dict', 'core.Glommer.scope': 'chainmap'})
    cfg.summaries.update({'core.TargetRegistry._get_closest_type': 'closest_type', 'core.TargetRegistry._register_fuzzy_type': 'register_fuzzy',
                          'core.TargetRegistry.register': 'registry_register', 'core.TargetRegistry': 'new_registry'})
    cfg.summary_result_tags['new_registry'] = 'inst:core.TargetRegistry'


def _nosum(*names):
    def f(cfg):
        for n in names:
            cfg.summaries.pop(n, None)
    return f


REG = 'inst:core.TargetRegistry'


def contracts():
    cs = []
    cs.append(Equiv('core.TargetRegistry.get_handler', 'ref_registry.get_handler_ref', config=_nosum('core.TargetRegistry.get_handler'),
                    args={'self': REG, 'op': 'ref', 'obj': 'ref', 'path': 'ref', 'raise_exc': 'bool'}))
    cs.append(Equiv('core.TargetRegistry.get_type_map', 'ref_registry.get_type_map_ref', args={'self': REG, 'op': 'ref'}))
    cs.append(Equiv('core.TargetRegistry._get_closest_type', 'ref_registry.closest_type_ref', args={'self': REG, 'obj': 'ref', 'type_tree': 'ref'},
                    loops={1: dict(vars=[('self', REG), ('obj', 'ref')], ref_vars=[('self', REG), ('obj', 'ref')])}))
    for name, kw in (('plain', 'kw:'), ('get', 'kw:get'), ('exact', 'kw:exact'), ('get+exact', 'kw:get,exact'), ('get+iterate', 'kw:get,iterate')):
        cs.append(Equiv('core.TargetRegistry.register', 'ref_registry.register_ref', label='core.TargetRegistry.register[%s]' % name,
                        config=_nosum('core.TargetRegistry.register'), args={'self': REG, 'target_type': 'ref', 'kwargs': kw},
                        loops={1: dict(vars=[('self', REG), ('new_op_map', 'dict'), ('target_type', 'ref')],
                                       ref_vars=[('self', REG), ('new_op_map', 'dict'), ('target_type', 'ref')],
                                       locals=['cur_type_map', 'handler', 'e']),
                               2: dict(vars=[('self', REG), ('target_type', 'ref')], ref_vars=[('self', REG), ('target_type', 'ref')]),
                               3: dict(vars=[('self', REG), ('target_type', 'ref')], ref_vars=[('self', REG), ('target_type', 'ref')])}))
    for name, kw in (('default', 'kw:'), ('no-default-types', 'kw:register_default_types'), ('scope', 'kw:scope')):
        cs.append(Equiv('core.Glommer.__init__', 'ref_registry.glommer_init_ref', label='core.Glommer.__init__[%s]' % name,
                        args={'self': 'inst:core.Glommer', 'kwargs': kw}))
    for name, kw in (('get', 'kw:get'), ('get+exact', 'kw:get,exact')):
        cs.append(Equiv('core.Glommer.register', 'ref_registry.glommer_register_ref', label='core.Glommer.register[%s]' % name,
                        args={'self': 'inst:core.Glommer', 'target_type': 'ref', 'kwargs': kw}))
    cs.append(Equiv('core.Glommer.glom', 'ref_registry.glommer_glom_ref', args={'self': 'inst:core.Glommer', 'target': 'ref', 'spec': 'ref', 'kwargs': 'kw:default'}))
    cs.append(Equiv('core.register', 'ref_registry.module_register_ref', args={'target_type': 'ref', 'kwargs': 'kw:get'}))
    from contracts import extra
    cs += common.shared(extra, ['core.TargetRegistry._register_fuzzy_type', 'core.TargetRegistry.register_op'])
    # construction: a registry owns fresh state; the default registrations happen in the documented order
    for name, req in (('defaults', ['register_default_types']), ('bare', ['not register_default_types'])):
        cs.append(Equiv('core.TargetRegistry.__init__', 'ref_registry.registry_init_ref', label='core.TargetRegistry.__init__[%s]' % name,
                        args={'self': REG, 'register_default_types': 'bool'}, requires=req,
                        config=lambda cfg: cfg.summaries.update({'core.TargetRegistry.register_op': 'register_op',
                                                                 'core.TargetRegistry._register_default_types': 'register_defaults'})))
    cs.append(Equiv('core.TargetRegistry._register_default_types', 'ref_registry.default_types_ref', args={'self': REG}))
    # the consumers: every place that asks the registry for a handler (so that none of them bypasses it)
    from contracts import C03, C14, C15, C11, C12
    cs += common.shared(C03, ['core._handle_list'])
    cs += common.shared(C14, ['core._extend_children'])
    cs += common.shared(C15, ['grouping.target_iter'])
    cs += common.shared(C11, ['core._assign_op'])
    cs += common.shared(C12, ['mutation.Delete._del_one'])
    return cs



def bounded_registration_orders(tier, seed):
    """_register_fuzzy_type (recursive in-place surgery on nested OrderedDicts) is outside the proved subset: exhaustive enumeration of class
    families (chain of 4, diamond + subclass, builtin subclasses) x every ordered subset of registrations x one exact flag position x optional
    re-registration, with a lookup of an instance of EVERY class after EVERY registration, against the nearest-registered-type oracle;
    on a registry without default types and on one with them."""
    import itertools
    from glom.core import TargetRegistry, UnregisteredTarget

    def families():
        class A: __slots__ = ()
        class B(A): __slots__ = ()
        class C(B): __slots__ = ()
        class D(C): __slots__ = ()
        yield 'chain', [A, B, C, D], [A, B, C, D]
        class P: __slots__ = ()
        class Q: __slots__ = ()
        class E(P, Q): __slots__ = ()
        class F(E): __slots__ = ()
        class Base: __slots__ = ()
        yield 'diamond', [P, Q, E, F], [P, Q, E]
        class L(list): pass
        class LL(L): pass
        yield 'builtin-sub', [list, L, LL], [list, L]
        class WA: pass          # classes WITH __dict__ (D8 region under default types)
        class WB(WA): pass
        yield 'with-dict', [WA, WB], [WA]
        class _HasFieldsMeta(type):
            def __instancecheck__(cls, inst):
                return hasattr(type(inst), 'fields_')
        class HasFields(metaclass=_HasFieldsMeta):     # a virtual / duck type: instance check only, no subclass relation (like glom's own _ObjStyleKeys)
            __slots__ = ()
        class Row:
            __slots__ = ()
            fields_ = ('a',)
        class Plain:
            __slots__ = ()
        yield 'duck', [Row, Plain], [object, HasFields]

    def nearest(regs, exacts, cls, inst=None):
        """regs: list of fuzzy-registered classes; exacts: exactly-registered ones. -> set of acceptable classes (or empty = unregistered);
        a fuzzy registration covers the INSTANCES of the type (isinstance: real subclasses and virtual / duck types alike)"""
        if cls in regs or cls in exacts:
            return {cls}
        cands = [r for r in regs if issubclass(cls, r) or (inst is not None and isinstance(inst, r))]
        best = [r for r in cands if not any(o is not r and issubclass(o, r) for o in cands)]
        return set(best)

    cases, failures, seen = 0, [], set()
    for default_types in (False, True):
        for fname, classes, registrable in families():
            if fname == 'with-dict' and not default_types:
                pass
            orders = []
            for n in range(1, len(registrable) + 1):
                for perm in itertools.permutations(registrable, n):
                    orders.append(list(perm))
                    for again in perm:
                        orders.append(list(perm) + [again])        # re-registration of one of them at the end
            for order in orders:
                for exact_pos in [None] + list(range(len(order))):
                    if tier != 'thorough' and exact_pos not in (None, 0, len(order) - 1):
                        continue
                    reg = TargetRegistry(register_default_types=default_types)
                    regs, exacts = [], []
                    handlers = {}
                    if default_types:
                        regs.append(list)                      # list is fuzzy-registered by the default types already
                        handlers[list] = reg.get_handler('get', [])
                        if fname == 'duck':
                            regs.append(object)                # ... and so is object (a later exact re-registration replaces its handler, not its place)
                            handlers[object] = getattr
                    for i, cls in enumerate(order):
                        h = (lambda name: (lambda o, k: name))(cls.__name__ + '#%d' % i)
                        handlers[cls] = h
                        ex = (i == exact_pos)
                        reg.register(cls, get=h, exact=ex)
                        if ex:
                            if cls not in exacts: exacts.append(cls)
                        elif cls not in regs:
                            regs.append(cls)
                        for probe in classes:
                            cases += 1
                            try:
                                inst = probe() if probe is not list else []
                            except Exception:
                                continue
                            ok_classes = nearest(regs, exacts, probe, inst)
                            try:
                                got = reg.get_handler('get', inst)
                            except UnregisteredTarget:
                                got = None
                            if ok_classes:
                                ok = any(got is handlers[c] for c in ok_classes)
                            else:
                                ok = default_types or got is None      # with default types `object` -> getattr covers everything
                                if default_types:
                                    ok = got is not None and all(got is not h for c_, h in handlers.items() if c_ is not list)
                            if not ok:
                                has_dict = hasattr(inst, '__dict__')
                                key = 'objstylekeys-shadow' if (default_types and has_dict and ok_classes) else 'registry-order'
                                if key == 'registry-order' and fname == 'diamond':
                                    names = [c.__name__ for c in order]
                                    if 'E' in names and any(par in names[names.index('E') + 1:] and par not in names[:names.index('E')] for par in ('P', 'Q')):
                                        key = 'mi-child-before-parent'       # the multiply-inheriting class was registered before one of its parents
                                if key in seen:
                                    continue
                                seen.add(key)
                                failures.append({'key': key, 'input': {'family': fname, 'default_types': default_types, 'order': [c.__name__ for c in order],
                                                                       'exact_pos': exact_pos, 'probe': probe.__name__},
                                                 'observed': getattr(got, '__name__', repr(got)) if got is not None else 'UnregisteredTarget',
                                                 'expected': 'handler of ' + '/'.join(sorted(c.__name__ for c in ok_classes)) if ok_classes else 'no user handler',
                                                 'replay_code': None})
    return {'name': 'registration orders vs nearest-registered-type oracle', 'bound': '5 class families (incl. a virtual / duck type), every ordered subset, exact flag positions, re-registration, lookups after every step, with/without default types',
            'cases': cases, 'failures': failures, 'label': 'bounded'}


def bounded_isolation(tier, seed):
    """Glommer instances neither affect nor are affected by global registrations or each other; a register() takes effect for the next call"""
    import glom
    from glom import Glommer, T
    cases, failures = 0, []
    class Iso:
        __slots__ = ('v',)
        def __init__(self): self.v = 1
    g1, g2 = Glommer(), Glommer(register_default_types=False)
    g1.register(Iso, get=lambda o, k: 'g1')
    cases += 1
    r1 = g1.glom(Iso(), 'v')
    try:
        r2 = g2.glom(Iso(), 'v')
    except glom.GlomError:
        r2 = 'unregistered'
    r0 = glom.glom(Iso(), 'v')
    if (r1, r2, r0) != ('g1', 'unregistered', 1):
        failures.append({'key': 'isolation', 'input': 'g1.register(Iso)', 'observed': repr((r1, r2, r0)), 'expected': "('g1', 'unregistered', 1)", 'replay_code': None})
    cases += 1
    g3 = Glommer()
    before = g3.glom(Iso(), 'v')
    g3.register(Iso, get=lambda o, k: 'late')
    after = g3.glom(Iso(), 'v')
    g3.register(Iso, get=lambda o, k: 'exact-late', exact=True)
    after2 = g3.glom(Iso(), 'v')
    if (before, after, after2) != (1, 'late', 'exact-late'):
        failures.append({'key': 'immediate', 'input': 'lookup, register, lookup, register exact, lookup', 'observed': repr((before, after, after2)),
                         'expected': "(1, 'late', 'exact-late')", 'replay_code': None})
    cases += 1
    dflt = Glommer().glom({'a': [1, {'b': (2,)}]}, 'a.1.b.0')
    if dflt != glom.glom({'a': [1, {'b': (2,)}]}, 'a.1.b.0'):
        failures.append({'key': 'default-glommer', 'input': 'a.1.b.0', 'observed': repr(dflt), 'expected': '2', 'replay_code': None})
    # the three registration entry points agree: an exact registration covers the type itself only, a plain one its subclasses too
    class IsoSub(Iso):
        __slots__ = ()
    import glom.core as gc
    for exact in (False, True):
        outs = {}
        for how in ('Glommer.register', 'TargetRegistry.register', 'bare Glommer'):
            cases += 1
            g = Glommer(register_default_types=(how != 'bare Glommer'))
            h = lambda o, k: 'custom'
            if how == 'TargetRegistry.register':
                g.scope[gc.TargetRegistry].register(Iso, get=h, exact=exact)
            else:
                g.register(Iso, get=h, exact=exact)
            res = []
            for inst in (Iso(), IsoSub()):
                try:
                    res.append(g.glom(inst, 'v'))
                except glom.GlomError as e:
                    res.append(type(e).__name__)
            outs[how] = res
        want_sub = 'custom' if not exact else None
        for how, res in outs.items():
            ok = res[0] == 'custom' and (res[1] == 'custom' if not exact else res[1] != 'custom')
            if not ok:
                failures.append({'key': 'exact-entry-points', 'input': {'entry': how, 'exact': exact}, 'observed': repr(res),
                                 'expected': "['custom', 'custom']" if not exact else "['custom', <not the custom handler>]", 'replay_code': None})
    # iteration goes through the registry for every kind of target, self-iterating ones (generators, iterators) included
    cases += 1
    gb = Glommer(register_default_types=False)
    try:
        r = gb.glom(iter([1, 2]), [T])
        failures.append({'key': 'iterate-bypass', 'input': 'bare Glommer, iterator target, [T]', 'observed': repr(r), 'expected': 'UnregisteredTarget', 'replay_code': None})
    except glom.UnregisteredTarget:
        pass
    except glom.GlomError as e:
        pass
    cases += 1
    gi = Glommer()
    class Cursor:
        def __init__(self): self.i = 0
        def __iter__(self): return self
        def __next__(self):
            self.i += 1
            if self.i > 2: raise StopIteration
            return self.i
    gi.register(Cursor, iterate=lambda c: iter(['registered']))
    r = gi.glom(Cursor(), [T])
    if r != ['registered']:
        failures.append({'key': 'iterate-bypass', 'input': 'registered iterate handler for a self-iterating type', 'observed': repr(r), 'expected': "['registered']", 'replay_code': None})
    return {'name': 'Glommer isolation / immediacy / entry points', 'bound': '11 scenarios', 'cases': cases, 'failures': failures, 'label': 'bounded'}


BOUNDED = [bounded_registration_orders, bounded_isolation]
ASSUMPTIONS = [
    'isinstance(obj, C) is an opaque predicate of (type(obj), C); handlers / auto-discovery functions are opaque primitives',
    '_register_fuzzy_type (tree construction) and register_op are proved equal to their references function by function, but that the resulting tree answers nearest-type queries for every registration order is NOT proved: it is covered by the labelled bounded enumeration; '
    '_get_closest_type is proved to return the deepest node along the first matching child at each level, which equals the nearest registered type when the tree is well formed',
    'TargetRegistry.__init__ (fresh state) and _register_default_types (order of the default registrations) are under contract; _register_builtin_ops is inlined into __init__ with register_op summarised (register_op has its own contract)',
]
TRUSTED = ['reference semantics contracts/ref_registry.py', 'nearest-type oracle in contracts/C13.py (bounded stand-in)']
EXPLANATION = ('get_handler (memo hit, exact table, closest type, UnregisteredTarget, memo store), get_type_map, _get_closest_type (recursive, own contract as induction hypothesis), '
               'register (handler selection per op, memo reset -- five keyword shapes), Glommer.__init__/register/glom and module-level register are proved equal to reference semantics; '
               'tree construction and isolation are bounded.')
CANARIES = [
    {'name': 'register: memo not reset', 'module': 'core', 'only': ['core.TargetRegistry.register[get]'], 'expect': ['core.TargetRegistry.register'],
     'old': "        self._type_cache = {}  # reset type cache\n", 'new': ""},
    {'name': 'get_handler: exact entries consulted after the tree', 'module': 'core', 'only': ['core.TargetRegistry.get_handler'], 'expect': ['core.TargetRegistry.get_handler'],
     'old': "                try:\n                    ret = type_map[obj_type]\n                except KeyError:\n                    type_tree",
     'new': "                try:\n                    raise KeyError(obj_type)\n                except KeyError:\n                    type_tree"},
    {'name': 'closest type: does not descend', 'module': 'core', 'only': ['core.TargetRegistry._get_closest_type'], 'expect': ['core.TargetRegistry._get_closest_type'],
     'old': "                ret = cur_type if sub_type is None else sub_type", 'new': "                ret = cur_type"},
    {'name': 'default types: duck types registered before the containers', 'module': 'core', 'only': ['core.TargetRegistry._register_default_types'], 'expect': ['core.TargetRegistry._register_default_types'], 'old': '        self.register(object)\n        self.register(dict, get=operator.getitem)', 'new': '        self.register(object)\n        self.register(_ObjStyleKeys, keys=_ObjStyleKeys.get_keys)\n        self.register(dict, get=operator.getitem)'},
    {'name': 'registry: memo shared through the class', 'module': 'core', 'only': ['core.TargetRegistry.__init__'], 'expect': ['core.TargetRegistry.__init__'], 'old': '        self._type_cache = {}\n\n        self._op_auto_map', 'new': "        self._type_cache = TargetRegistry.__dict__.get('_shared_cache', {})\n\n        self._op_auto_map"},
]
