"""C10 — M, And, Or, Not, Switch and Check decide like the boolean expressions denoted."""
from pyvc.verify import Post, Case, Equiv
from contracts import common

PROPERTY = 'C10'
REF_MODULES = ['ref_match', 'ref_extra', 'ref_core', 'h_ops']


def config(cfg):
    common.apply(cfg)
    cfg.summaries['matching.And._glomit'] = 'and_glomit'
    cfg.summaries['matching.Or._glomit'] = 'or_glomit'
    cfg.field_types.update({'matching.Switch.cases': 'list'})
    cfg.inline_star_ctors |= {'matching.And', 'matching.Or'}


def _nosum(*names):
    def f(cfg):
        for n in names:
            cfg.summaries.pop(n, None)
    return f


def contracts():
    cs = []
    for cls in ('And', 'Or'):
        cs.append(Equiv('matching._Bool.glomit', 'ref_match.bool_ref', label='matching._Bool.glomit[%s]' % cls,
                        args={'self': 'inst:matching.%s' % cls, 'target': 'ref', 'scope': 'chainmap'}))
    cs.append(Equiv('matching.And._glomit', 'ref_match.and_ref', args={'self': 'inst:matching.And', 'target': 'ref', 'scope': 'chainmap'},
                    config=_nosum('matching.And._glomit'),
                    loops={1: dict(vars=[('result', 'ref'), ('target', 'ref'), ('scope', 'chainmap')],
                                   ref_vars=[('out', 'ref'), ('target', 'ref'), ('scope', 'chainmap')])}))
    cs.append(Equiv('matching.Or._glomit', 'ref_match.or_ref', args={'self': 'inst:matching.Or', 'target': 'ref', 'scope': 'chainmap'},
                    requires=['len(self.children) >= 1'], config=_nosum('matching.Or._glomit'),
                    loops={1: dict(vars=[('target', 'ref'), ('scope', 'chainmap')], ref_vars=[('target', 'ref'), ('scope', 'chainmap')], locals=['i'])}))
    cs.append(Equiv('matching.Not.glomit', 'ref_match.not_ref', args={'self': 'inst:matching.Not', 'target': 'ref', 'scope': 'chainmap'}))
    cs.append(Equiv('matching._MSubspec.glomit', 'ref_match.msubspec_ref', args={'self': 'inst:matching._MSubspec', 'target': 'ref', 'scope': 'chainmap'}))
    cs.append(Equiv('matching._MType.glomit', 'ref_match.mtype_ref', args={'self': 'inst:matching._MType', 'target': 'ref', 'spec': 'chainmap'}))
    forms = {'M': '{0} is M', 'sub': 'type({0}) is _MSubspec', 'lit': '{0} is not M and type({0}) is not _MSubspec'}
    mcases = []
    for op in ('=', '!', '>', '<', 'g', 'l', 'other'):
        opreq = ("self.op == %r" % op) if op != 'other' else "self.op not in ('=', '!', '>', '<', 'g', 'l')"
        for lf in forms:
            for rf in forms:
                mcases.append(('%s,%s,%s' % (op, lf, rf), [opreq, forms[lf].format('self.lhs'), forms[rf].format('self.rhs')]))
    cs.append(Equiv('matching._MExpr.glomit', 'ref_match.mexpr_ref', args={'self': 'inst:matching._MExpr', 'target': 'ref', 'scope': 'chainmap'},
                    cases=mcases, raise_only_cases=['other']))
    cs.append(Equiv('matching.Switch.glomit', 'ref_match.switch_ref', args={'self': 'inst:matching.Switch', 'target': 'ref', 'scope': 'chainmap'},
                    loops={1: dict(vars=[('self', 'inst:matching.Switch'), ('target', 'ref'), ('scope', 'chainmap')])}))
    import itertools
    dims = [('raise', 'self.default is RAISE', 'dflt', 'self.default is not RAISE'), ('T', 'self.spec is T', 'sub', 'self.spec is not T'),
            ('notypes', 'len(self.types) == 0', 'types', 'len(self.types) > 0'),
            ('noval', 'len(self.validators) == 0', 'val', 'len(self.validators) > 0'),
            ('noinst', 'len(self.instance_of) == 0', 'inst', 'len(self.instance_of) > 0')]
    ccases = []
    for bits in itertools.product((0, 1), repeat=len(dims)):
        ccases.append((','.join(d[2 * b] for d, b in zip(dims, bits)), [d[2 * b + 1] for d, b in zip(dims, bits)]))
    cs.append(Equiv('matching.Check.glomit', 'ref_match.check_ref', args={'self': 'inst:matching.Check', 'target': 'ref', 'scope': 'chainmap'},
                    cases=ccases,
                    loops={1: dict(vars=[], ref_vars=[]),
                           2: dict(vars=[('self', 'inst:matching.Check'), ('target', 'ref'), ('errs', 'list')],
                                   ref_vars=[('self', 'inst:matching.Check'), ('target', 'ref'), ('errs', 'list')],
                                   locals=['failed', 'raised', 'res', 'msg', 'e']),
                           3: dict(vars=[], ref_vars=[])}))
    # op-code table: each comparison dunder of M / M(...) records the op code that _MExpr.glomit decodes as that comparison
    table = {'__eq__': '=', '__ne__': '!', '__gt__': '>', '__lt__': '<', '__ge__': 'g', '__le__': 'l'}
    for cls in ('_MType', '_MSubspec'):
        for dunder, code in table.items():
            cs.append(Post('matching.%s.%s' % (cls, dunder), cases=[
                Case('any', args={'self': 'inst:matching.%s' % cls, 'other': 'ref'},
                     ensures=['result.lhs is self', 'result.op == %r' % code, 'result.rhs is other', 'type(result) is _MExpr'])]))
    for cls in ('_MType', '_MExpr', '_Bool'):
        self_t = 'inst:matching.%s' % ('And' if cls == '_Bool' else cls)
        if cls != '_Bool':
            cs.append(Post('matching.%s.__and__' % cls, cases=[Case('any', args={'self': self_t, 'other': 'ref'},
                      ensures=['type(result) is And', 'len(result.children) == 2', 'result.children[0] is self', 'result.children[1] is other'])]))
        cs.append(Post('matching.%s.__or__' % cls, label='matching.%s.__or__[%s]' % (cls, self_t), cases=[Case('any', args={'self': self_t, 'other': 'ref'},
                  ensures=['type(result) is Or', 'len(result.children) == 2', 'result.children[0] is self', 'result.children[1] is other'])]))
        cs.append(Post('matching.%s.__invert__' % cls, label='matching.%s.__invert__[%s]' % (cls, self_t), cases=[Case('any', args={'self': self_t},
                  ensures=['type(result) is Not', 'result.child is self'])]))
    # And.__and__ / Or.__or__ flatten
    cs.append(Post('matching.And.__and__', cases=[Case('any', args={'self': 'inst:matching.And', 'other': 'ref'},
              requires=['len(self.children) >= 1'], ensures=['type(result) is And', 'same(result.children, self.children + (other,))'])]))
    cs.append(Post('matching.Or.__or__', cases=[Case('any', args={'self': 'inst:matching.Or', 'other': 'ref'},
              requires=['len(self.children) >= 1'], ensures=['type(result) is Or', 'same(result.children, self.children + (other,))'])]))
    # the same laws stated on the OPERATORS, resolved by method dispatch on each concrete class (catches an operator method added to or
    # overridden in a subclass, which the per-method contracts above would not execute)
    for cname in ('And', 'Or', 'Not', '_MExpr', '_MType'):
        st_ = 'inst:matching.%s' % cname
        pre = ['len(x.children) >= 1'] if cname in ('And', 'Or') else []
        cs.append(Post('h_ops.inv', helpers='h_ops', label='LEMMA C10.op[~%s]' % cname, cases=[
            Case('any', args={'x': st_}, requires=pre, ensures=['type(result) is Not', 'result.child is x'])]))
        if cname != 'And':
            cs.append(Post('h_ops.conj', helpers='h_ops', label='LEMMA C10.op[%s&y]' % cname, cases=[
                Case('any', args={'x': st_, 'y': 'ref'}, requires=pre,
                     ensures=['type(result) is And', 'len(result.children) == 2', 'result.children[0] is x', 'result.children[1] is y'])]))
        if cname != 'Or':
            cs.append(Post('h_ops.disj', helpers='h_ops', label='LEMMA C10.op[%s|y]' % cname, cases=[
                Case('any', args={'x': st_, 'y': 'ref'}, requires=pre,
                     ensures=['type(result) is Or', 'len(result.children) == 2', 'result.children[0] is x', 'result.children[1] is y'])]))
    from contracts import extra
    cs += common.shared(extra, ['matching.Switch.__init__', 'matching._Bool.__init__'])
    # Check's constructor: how each keyword becomes the tuples that glomit later walks
    for name, kw in (('none', 'kw:'), ('validate', 'kw:validate'), ('type', 'kw:type'), ('instance_of', 'kw:instance_of'), ('equal_to', 'kw:equal_to'),
                     ('one_of', 'kw:one_of'), ('equal_to+one_of', 'kw:equal_to,one_of'), ('default+type', 'kw:default,type'), ('bogus', 'kw:bogus')):
        cs.append(Equiv('matching.Check.__init__', 'ref_match.check_init_ref', label='matching.Check.__init__[%s]' % name,
                        args={'self': 'inst:matching.Check', 'spec': 'ref', 'kwargs': kw}, raise_only=name in ('bogus', 'equal_to+one_of'),
                        loops={1: dict(vars=[('func', 'ref'), ('name', 'ref'), ('cond', 'ref')], ref_vars=[('func', 'ref'), ('name', 'ref'), ('cond', 'ref')])}))
    cs.append(Equiv('matching.Regex.__init__', 'ref_match.regex_init_ref', args={'self': 'inst:matching.Regex', 'pattern': 'ref', 'flags': 'ref', 'func': 'ref'}))
    cs.append(Equiv('matching._MType.__call__', 'ref_match.mtype_call_ref', args={'self': 'inst:matching._MType', 'spec': 'ref'}))
    from contracts import X_ctor
    cs += common.shared(X_ctor, ['matching.Not.__init__', 'matching._MExpr.__init__', 'matching._MSubspec.__init__'])
    from contracts import C08
    cs += common.shared(C08, ['core.arg_val', 'core.chain_child'])
    cs += common.shared(X_ctor, ['matching.CheckError.__init__'])
    cs += common.shared(X_ctor, ['matching.TypeMatchError.__init__'])
    return cs


from contracts import native as _n
_ATOMS = ["M > 1", "M == 'a'", "M(T['a']) >= 1", "int", "M", "Val(SKIP)", "T['zz']", "M != None", "M < 2", "M <= 1", "2 > M", "Not(M)"]


def _bool_cases(ctor):
    import itertools
    for t in ["0", "1", "2", "'a'", "None", "{'a': 1}", "{'a': 0}", "[]"]:
        for combo in itertools.product(_ATOMS[:8], repeat=2):
            yield t, '%s(%s, %s)' % (ctor, combo[0], combo[1])
            yield t, '%s(%s, %s, default=T)' % (ctor, combo[0], combo[1])


NATIVE = {
    'matching.And._glomit': _n.differ('matching.And._glomit', 'ref_match.and_ref', lambda: _bool_cases('And'), mode='method'),
    'matching.Or._glomit': _n.differ('matching.Or._glomit', 'ref_match.or_ref', lambda: _bool_cases('Or'), mode='method'),
    'matching._Bool.glomit': _n.differ('matching._Bool.glomit', 'ref_match.bool_ref', lambda: list(_bool_cases('Or')) + list(_bool_cases('And')), mode='method'),
    'matching.Not.glomit': _n.differ('matching.Not.glomit', 'ref_match.not_ref', lambda: [(t, 'Not(%s)' % a) for t in ["0", "3", "'a'", "None"] for a in _ATOMS], mode='method'),
    'matching._MExpr.glomit': _n.differ('matching._MExpr.glomit', 'ref_match.mexpr_ref',
                                        lambda: [(t, a) for t in ["0", "1", "2", "'a'", "None", "{'a': 1}"] for a in _ATOMS if a[0] in 'M2'and a not in ('M',)], mode='method'),
    'matching.Switch.glomit': _n.differ('matching.Switch.glomit', 'ref_match.switch_ref',
                                        lambda: [(t, 'Switch([(%s, Val(1)), (%s, T)]%s)' % (a, b, d)) for t in ["0", "1", "'a'", "{'a': 1}"]
                                                 for a in _ATOMS[:7] for b in _ATOMS[:7] for d in ('', ', default=9')], mode='method'),
    'matching.Check.glomit': _n.differ('matching.Check.glomit', 'ref_match.check_ref',
                                       lambda: [(t, 'Check(%s%s)' % (k, d)) for t in ["0", "1", "'a'", "None", "[1]", "{'a': 1}"]
                                                for k in ("type=int", "instance_of=(int, str)", "equal_to=1", "one_of=(1, 'a')", "validate=lambda x: 1 / x",
                                                          "validate=(bool, lambda x: x == 1)", "T['a'], type=int", "validate=lambda x: False", "type=int, validate=lambda x: x > 0")
                                                for d in ('', ", default='d'", ", default=SKIP")], mode='method'),
}

ASSUMPTIONS = [
    'G-contract for recursive evaluation; opaque user primitives (comparisons, validators, bool()); bool() of a value is deterministic and side-effect free',
    'ScopeInv; callee summaries arg_val / chain_child (inlined) / And._glomit / Or._glomit (proved in this check)',
    'Check: the default of the validate branch is returned as the object itself (the statement does not say defaults are evaluated); '
    'Check.__init__ argument validation is not under contract',
]
TRUSTED = ['reference semantics contracts/ref_match.py']
EXPLANATION = ('_Bool.glomit (And, Or), And._glomit, Or._glomit, Not.glomit, _MSubspec/_MType/_MExpr.glomit (63 operand-form x op cases), Switch.glomit and '
               'Check.glomit (32 keyword-shape cases) are proved equal to reference semantics; the op-code table of the M dunders and the & | ~ '
               'constructors are proved as postconditions, and restated as lemmas on the operators resolved by method dispatch per concrete class; '
               'Check.__init__ (9 keyword shapes), Regex.__init__, M(spec) and the Not / _MExpr / _MSubspec constructors are under contract.')
CANARIES = [
    {'name': 'Or: no short-circuit', 'module': 'matching', 'only': ['matching.Or._glomit'], 'expect': ['matching.Or._glomit'],
     'old': "                return scope[glom](target, child, scope)\n            except GlomError:\n                pass",
     'new': "                scope[glom](target, child, scope)\n            except GlomError:\n                pass"},
    {'name': 'MExpr: >= decoded as >', 'module': 'matching', 'only': ['matching._MExpr'], 'expect': ['matching._MExpr'],
     'old': "(op == 'g' and lhs >= rhs)", 'new': "(op == 'g' and lhs > rhs)"},
    {'name': 'Switch: falls through to a later case', 'module': 'matching', 'only': ['matching.Switch'], 'expect': ['matching.Switch'],
     'old': "            return scope[glom](target, valspec, chain_child(scope))", 'new': "            scope[glom](target, valspec, chain_child(scope))"},
    {'name': 'Not: raises GlomError again', 'module': 'matching', 'only': ['matching.Not'], 'expect': ['matching.Not'],
     'old': 'raise MatchError("child shouldn\'t have passed", self.child)', 'new': 'raise GlomError("child shouldn\'t have passed", self.child)'},
    {'name': 'M dunder: __ge__ records l', 'module': 'matching', 'only': ['matching._MType.__ge__'], 'expect': ['matching._MType.__ge__'],
     'old': "    def __ge__(self, other):\n        return _MExpr(self, 'g', other)\n\n    def __le__(self, other):\n        return _MExpr(self, 'l', other)\n\n    def __and__",
     'new': "    def __ge__(self, other):\n        return _MExpr(self, 'l', other)\n\n    def __le__(self, other):\n        return _MExpr(self, 'l', other)\n\n    def __and__"},
    {'name': 'Not gains an __invert__ that unwraps', 'module': 'matching', 'only': ['LEMMA C10.op[~Not]'], 'expect': ['LEMMA C10.op[~Not]'], 'old': '    def __init__(self, child):\n        self.child = child\n', 'new': '    def __init__(self, child):\n        self.child = child\n\n    def __invert__(self):\n        return self.child\n'},
    {'name': 'Check: empty type tuple accepted', 'module': 'matching', 'only': ['matching.Check.__init__[type]'], 'expect': ['matching.Check.__init__'], 'old': "lambda x: isinstance(x, type), type_arg, False)", 'new': "lambda x: isinstance(x, type), type_arg, True)"},
]
