"""C03 — auto-mode restructuring is compositional in its sub-specs."""
from pyvc.verify import Post, Case, Equiv
from contracts import common

PROPERTY = 'C03'
REF_MODULES = ['ref_auto', 'ref_core', 'ref_match', 'ref_reduce', 'ref_extra', 'ref_stream', 'ref_registry', 'h_path']


def config(cfg):
    common.apply(cfg)
    cfg.summaries['core._ArgValuator'] = 'new_argvaluator'


def contracts():
    cs = []
    cs.append(Equiv('core._handle_tuple', 'ref_auto.tuple_ref', args={'target': 'ref', 'spec': 'seq', 'scope': 'chainmap'},
                    loops={1: dict(vars=[('res', 'ref'), ('scope', 'chainmap')], ref_vars=[('cur', 'ref'), ('scope', 'chainmap')])}))
    cs.append(Equiv('core._handle_dict', 'ref_auto.dict_ref', args={'target': 'ref', 'spec': 'ref', 'scope': 'chainmap'},
                    loops={1: dict(vars=[('ret', 'ref'), ('target', 'ref'), ('scope', 'chainmap')],
                                   ref_vars=[('out', 'ref'), ('target', 'ref'), ('scope', 'chainmap')])}))
    cs.append(Equiv('core._handle_list', 'ref_auto.list_ref', args={'target': 'ref', 'spec': 'ref', 'scope': 'chainmap'},
                    loops={1: dict(vars=[('ret', 'list'), ('scope', 'chainmap'), ('subspec', 'ref'), ('base_path', 'list')],
                                   ref_vars=[('out', 'list'), ('scope', 'chainmap'), ('sub', 'ref'), ('here', 'list')])}))
    cs.append(Equiv('core.Coalesce.glomit', 'ref_auto.coalesce_ref', args={'self': 'inst:core.Coalesce', 'target': 'ref', 'scope': 'chainmap'},
                    loops={1: dict(vars=[('skipped', 'list'), ('ret', 'ref'), ('self', 'inst:core.Coalesce'), ('target', 'ref'), ('scope', 'chainmap')],
                                   ref_vars=[('skipped', 'list'), ('value', 'ref'), ('self', 'inst:core.Coalesce'), ('target', 'ref'), ('scope', 'chainmap')], locals=['wanted'])}))
    cs.append(Equiv('core.Pipe.glomit', 'ref_auto.pipe_ref', args={'self': 'inst:core.Pipe', 'target': 'ref', 'scope': 'chainmap'}))
    cs.append(Equiv('core.Val.glomit', 'ref_auto.val_ref', args={'self': 'inst:core.Val', 'target': 'ref', 'scope': 'chainmap'}))
    cs.append(Equiv('core.Spec.glomit', 'ref_auto.spec_ref', args={'self': 'inst:core.Spec', 'target': 'ref', 'scope': 'chainmap'}))
    cs.append(Equiv('core.Call.glomit', 'ref_auto.call_ref', args={'self': 'inst:core.Call', 'target': 'ref', 'scope': 'chainmap'}))
    cs.append(Equiv('core.Ref.glomit', 'ref_auto.ref_ref', args={'self': 'inst:core.Ref', 'target': 'ref', 'scope': 'chainmap'}))
    cs.append(Equiv('core.AUTO', 'ref_auto.auto_ref', args={'target': 'ref', 'spec': 'ref', 'scope': 'chainmap'}))
    from contracts import C08
    cs += [c for c in C08.contracts() if c.label in ('core._glom', 'core.chain_child')]      # dispatcher: T first, glomit objects (not classes), then the mode
    cs.append(Equiv('core._has_callable_glomit', 'ref_core.has_callable_glomit_ref', args={'obj': 'ref'}))
    cs.append(Equiv('ref_auto.pipe_law_rhs', 'ref_auto.pipe_law_lhs', label='LEMMA C03.pipe',
                    args={'target': 'ref', 'a': 'ref', 'b': 'ref', 'scope': 'chainmap'},
                    requires=['True']))
    from contracts import extra
    cs += common.shared(extra, ['core.Invoke.glomit', 'core.Coalesce.__init__', 'core.Call.__init__'])
    # what the composite specs hold is what they were given: constructors, and the copy-on-write builders of Invoke (shared with C17)
    from contracts import X_ctor, C17
    cs += common.shared(X_ctor, ['core.Pipe.__init__', 'core.Val.__init__', 'core.Spec.__init__', 'core.Ref.__init__', 'core.Auto.__init__', 'core.Fill.__init__',
                                 'core.Invoke.__init__', 'core._is_spec'])
    cs += common.shared(C17, ['core.Invoke.constants', 'core.Invoke.specs', 'core.Invoke.star'])
    # Call arguments and Coalesce defaults are argument-evaluated with a fresh valuator per evaluation (shared with C08)
    from contracts import C08
    cs += common.shared(C08, ['core.arg_val', 'core._ArgValuator.mode'])
    cs += common.shared(X_ctor, ['core._ArgValuator.__init__'])
    # further callees of the handlers: text paths, Path construction, the registry lookup behind list iteration
    from contracts import C18 as _c18, C13 as _c13
    cs += common.shared(extra, ['core.Path.from_text'])
    cs += common.shared(_c18, ['core.Path.__init__'])
    cs += common.shared(_c13, ['core.TargetRegistry.get_handler', 'core.TargetRegistry.get_type_map', 'core.TargetRegistry._get_closest_type'])
    cs += common.shared(X_ctor, ['core.CoalesceError.__init__'])
    return cs



def bounded_composition(tier, seed):
    """composite specs built from a DESCRIPTION (so the oracle never reads a field of a constructed spec object) against a direct interpreter of the
    statement: tuple / Pipe chain each step's output into the next (SKIP keeps the value, STOP ends THAT chain), dict / list specs collect
    (SKIP omitted, STOP ends the collection), Coalesce returns the first alternative that does not fail, Val yields its constant.
    Bound: random descriptions of depth <= 3 (quick: 400, thorough: 4000) x 3 targets, plus all two-level nestings of chains with STOP/SKIP."""
    import random, itertools, glom
    from glom import glom as G, Pipe, Val, Coalesce, SKIP, STOP, T, GlomError
    rnd = random.Random(seed or 1)
    fns = {'inc': lambda t: t + 1 if isinstance(t, int) else t, 'wrap': lambda t: [t], 'ident': lambda t: t, 'tolist': lambda t: list(t) if isinstance(t, (list, tuple, dict)) else [t]}
    leaves = [('key', 'a'), ('key', 'b'), ('key', 'zz'), ('fn', 'inc'), ('fn', 'wrap'), ('fn', 'ident'), ('fn', 'tolist'), ('val', 7), ('val', 'SKIP'), ('val', 'STOP'), ('t', 'a')]
    def gen(depth):
        r = rnd.random()
        if depth <= 0 or r < 0.35:
            return rnd.choice(leaves)
        kind = rnd.choice(['tuple', 'pipe', 'tuple', 'pipe', 'dict', 'list', 'coalesce'])
        if kind in ('tuple', 'pipe'):
            return (kind, [gen(depth - 1) for _ in range(rnd.randint(0, 3))])
        if kind == 'dict':
            return ('dict', [(k, gen(depth - 1)) for k in ('x', 'y')[:rnd.randint(1, 2)]])
        if kind == 'list':
            return ('list', gen(depth - 1))
        return ('coalesce', [gen(depth - 1) for _ in range(rnd.randint(1, 3))])
    def build(d):
        k = d[0]
        if k == 'key': return d[1]
        if k == 't': return T[d[1]]
        if k == 'fn': return fns[d[1]]
        if k == 'val': return Val({'SKIP': SKIP, 'STOP': STOP}.get(d[1], d[1]))
        if k == 'tuple': return tuple(build(x) for x in d[1])
        if k == 'pipe': return Pipe(*[build(x) for x in d[1]])
        if k == 'dict': return {kk: build(x) for kk, x in d[1]}
        if k == 'list': return [build(d[1])]
        return Coalesce(*[build(x) for x in d[1]])
    class Fail(Exception):
        pass
    class Unspecified(Exception):
        pass
    def ev(t, d):
        k = d[0]
        if k in ('key', 't'):
            try:
                return t[d[1]] if isinstance(t, dict) or k == 't' else getattr(t, d[1])
            except Exception:
                raise Fail()
        if k == 'fn': return fns[d[1]](t)
        if k == 'val': return {'SKIP': SKIP, 'STOP': STOP}.get(d[1], d[1])
        if k in ('tuple', 'pipe'):
            for step in d[1]:
                nxt = ev(t, step)
                if nxt is SKIP: continue
                if nxt is STOP: break
                t = nxt
            return t
        if k == 'dict':
            out = {}
            for kk, x in d[1]:
                v = ev(t, x)
                if v is SKIP: continue
                if v is STOP: raise Unspecified()     # the statement does not say what a STOP entry of a dict spec means
                out[kk] = v
            return out
        if k == 'list':
            if not isinstance(t, (list, tuple, dict)):
                raise Fail()          # the default registry iterates lists, tuples and dicts (keys); strings and scalars are not iterable targets
            it = iter(t)
            out = []
            for item in it:
                v = ev(item, d[1])
                if v is SKIP: continue
                if v is STOP: break
                out.append(v)
            return out
        for alt in d[1]:
            try:
                return ev(t, alt)
            except Fail:
                continue
        raise Fail()
    targets = [{'a': {'a': 1, 'b': [1, 2]}, 'b': [{'a': 1}, {'a': 2, 'b': 3}]}, {'a': 5, 'b': {'a': [3]}}, [{'a': 1, 'b': 2}, {'a': 3}]]
    descs = []
    chains = [[('fn', 'inc')], [('val', 'STOP'), ('fn', 'inc')], [('fn', 'inc'), ('val', 'STOP'), ('fn', 'inc')], [('val', 'SKIP'), ('fn', 'inc')], []]
    for outer_kind, inner_kind in itertools.product(('tuple', 'pipe'), repeat=2):
        for inner in chains:
            for pos in range(3):
                steps = [('fn', 'inc'), ('fn', 'inc')]
                steps.insert(pos, (inner_kind, inner))
                descs.append((outer_kind, [('key', 'a')] + steps))
    descs += [gen(3) for _ in range(4000 if tier == 'thorough' else 400)]
    cases, failures = 0, []
    for d in descs:
        for t in targets:
            cases += 1
            try:
                exp = ('ok', ev(t, d))
            except Fail:
                exp = ('fail', None)
            except Exception as e:
                continue        # unspecified by the statement, or the oracle's own leaf function rejected the value (e.g. iterating an int): not a composition question
            try:
                got = ('ok', G(t, build(d)))
            except GlomError:
                got = ('fail', None)
            except Exception as e:
                got = ('exc', type(e).__name__)
            if got != exp and not (exp[0] == 'fail' and got[0] != 'ok'):
                failures.append({'key': 'composition', 'input': {'spec': repr(d), 'target': repr(t)}, 'observed': repr(got)[:200], 'expected': repr(exp)[:200],
                                 'replay_code': None})
                if len(failures) >= 3:
                    break
        if len(failures) >= 3:
            break
    return {'name': 'composite specs from descriptions vs a direct interpreter of the statement', 'label': 'bounded', 'cases': cases,
            'bound': 'all two-level chain nestings with STOP/SKIP at 3 positions x tuple/Pipe; %d random descriptions of depth <= 3; 3 targets' % (len(descs) - 60),
            'failures': failures}


def bounded_invoke_stacking(tier, seed):
    """Invoke parts stack left to right: positional arguments accumulate in chaining order, a keyword given twice takes the value of the LATER
    part -- whether the parts are constants(), specs() or star(kwargs=) -- and the function is called exactly once with the result.
    Oracle: list.extend / dict.update in chaining order.  Bound: all sequences of <= 3 parts over the 8 part kinds below (585 specs)."""
    import itertools
    from glom import glom, Invoke, T
    target = {'opts': {'sep': '|', 'end': '!'}, 'more': {'end': '?'}, 'lst': [7, 8], 's': 'S', 'a': 'A'}
    parts = [('constants', (1,), {}), ('constants', (), {'sep': '-'}), ('constants', (2,), {'end': '.', 'sep': '+'}), ('specs', ('a',), {}), ('specs', (), {'sep': 's'}),
             ('star', (), {'kwargs': 'opts'}), ('star', (), {'args': 'lst'}), ('star', (), {'args': 'lst', 'kwargs': 'more'})]
    calls = []
    def f(*a, **k):
        calls.append(1)
        return (a, sorted(k.items()))
    cases, failures = 0, []
    for n in range(0, 4):
        for seq in itertools.product(parts, repeat=n):
            spec, ea, ek = Invoke(f), [], {}
            for meth, a, k in seq:
                spec = getattr(spec, meth)(*a, **k)
                if meth == 'constants':
                    ea.extend(a); ek.update(k)
                elif meth == 'specs':
                    ea.extend(target[x] for x in a); ek.update({kk: target[v] for kk, v in k.items()})
                else:
                    if 'args' in k:
                        ea.extend(target[k['args']])
                    if 'kwargs' in k:
                        ek.update(target[k['kwargs']])
            cases += 1
            del calls[:]
            try:
                got = glom(target, spec)
            except Exception as e:
                got = repr(e)
            exp = (tuple(ea), sorted(ek.items()))
            if got != exp or len(calls) != 1:
                failures.append({'key': 'invoke-stacking', 'input': repr(spec)[:200], 'observed': repr(got)[:150] + ' (%d calls)' % len(calls), 'expected': repr(exp)[:150],
                                 'replay_code': None})
                if len(failures) > 5:
                    break
    return {'name': 'Invoke parts stack left to right (list.extend / dict.update oracle)', 'label': 'bounded', 'cases': cases, 'bound': 'sequences of <= 3 parts over 8 part kinds',
            'failures': failures}


BOUNDED = [bounded_composition, bounded_invoke_stacking]

ASSUMPTIONS = [
    'G-contract: scope[glom](t, s, sc) is an uninterpreted transformer of the whole modelled state (opaque user world token, scope frames, lists); '
    'handlers are proved equal to their reference for every behaviour of it (structural induction on the evaluation)',
    'A-user: user callables / registered handlers are opaque primitives that may raise anything derived from BaseException and do not reach glom-internal objects they were not passed',
    'ScopeInv/FrameInv: the bookkeeping keys (Path, MODE, MIN_MODE, TargetRegistry, glom, UP, T, CHILD_ERRORS) are bound in every scope (established by glom()/_glom, see C05/C07)',
    'callee summaries assumed here and proved under their own checks: arg_val, _t_eval, TargetRegistry.get_handler, Path.from_text',
    'dict specs behave like builtin dicts (items() yields (key, value) pairs); partial correctness (termination of user specs is not claimed)',
]
TRUSTED = ['reference semantics contracts/ref_auto.py (written from the property statement; also executed natively by the differential replay)']
EXPLANATION = ('_handle_tuple/_handle_dict/_handle_list/Coalesce.glomit/Pipe/Val/Spec/Call/Ref.glomit/AUTO are proved equal to their reference '
               'semantics (same result or exception, same order of opaque events, same modelled heap) with symbolic-length loops justified by '
               'loop-body equivalence; the pipe law is a lemma over the reference.')

CANARIES = [
    {'name': 'tuple: swap SKIP/STOP', 'module': 'core', 'only': ['core._handle_tuple'], 'expect': ['core._handle_tuple'],
     'old': "        if nxt is SKIP:\n            continue\n        if nxt is STOP:\n            break\n        res = nxt",
     'new': "        if nxt is STOP:\n            continue\n        if nxt is SKIP:\n            break\n        res = nxt"},
    {'name': 'tuple: drop chain_child', 'module': 'core', 'only': ['core._handle_tuple'], 'expect': ['core._handle_tuple'],
     'old': "        scope = chain_child(scope)\n        nxt = scope[glom]", 'new': "        nxt = scope[glom]"},
    {'name': 'dict: SKIP not honoured', 'module': 'core', 'only': ['core._handle_dict'], 'expect': ['core._handle_dict'],
     'old': "        if val is SKIP:\n            continue\n        if type(field) in (Spec, TType):", 'new': "        if type(field) in (Spec, TType):"},
    {'name': 'list: STOP appended', 'module': 'core', 'only': ['core._handle_list'], 'expect': ['core._handle_list'],
     'old': "        if val is STOP:\n            break\n        ret.append(val)", 'new': "        ret.append(val)\n        if val is STOP:\n            break"},
    {'name': 'coalesce: continue after success', 'module': 'core', 'only': ['core.Coalesce'], 'expect': ['core.Coalesce'],
     'old': "                if not self.skip_func(ret):\n                    break", 'new': "                if not self.skip_func(ret):\n                    continue"},
    {'name': 'call: kwargs evaluated before args', 'module': 'core', 'only': ['core.Call'], 'expect': ['core.Call'],
     'old': "        return r(self.func)(*r(self.args), **r(self.kwargs))", 'new': "        kw = r(self.kwargs)\n        return r(self.func)(*r(self.args), **kw)"},
    {'name': 'Pipe.__init__: first step dropped', 'module': 'core', 'only': ['core.Pipe.__init__'], 'expect': ['core.Pipe.__init__'], 'old': '    def __init__(self, *steps):\n        self.steps = steps\n', 'new': '    def __init__(self, *steps):\n        self.steps = steps[::-1]\n'},
    {'name': 'Invoke.constants: kwargs registry shared', 'module': 'core', 'only': ['core.Invoke.constants'], 'expect': ['core.Invoke.constants'], 'old': '        ret._cur_kwargs = dict(self._cur_kwargs)\n        ret._cur_kwargs.update({k: kw for k, _ in kw.items()})', 'new': '        ret._cur_kwargs = self._cur_kwargs\n        ret._cur_kwargs.update({k: kw for k, _ in kw.items()})'},
]

from contracts import native as _n
_SUBS = ["'a'", "T['a']", "lambda t: SKIP", "lambda t: STOP", "lambda t: t", "len", "Val(1)", "'missing'", "['b']", "{'k': 'a'}", "Val(SKIP)", "Val(STOP)"]


def _tuple_cases():
    import itertools
    for t in _n.TARGETS:
        for n in (0, 1, 2, 3):
            for combo in itertools.product(_SUBS[:8], repeat=n):
                yield t, '(' + ''.join(c + ', ' for c in combo) + ')'


def _dict_cases():
    import itertools
    for t in _n.TARGETS:
        for combo in itertools.product(_SUBS, repeat=2):
            yield t, "{'x': %s, T['a']: %s}" % combo
            yield t, "OrderedDict([('y', %s), ('x', %s)])" % combo


def _list_cases():
    for t in _n.TARGETS:
        for s in _SUBS:
            yield t, '[%s]' % s


def _coalesce_cases():
    import itertools
    for t in _n.TARGETS:
        for combo in itertools.product(_SUBS[:8], repeat=2):
            for kw in ("", ", default=T['a']", ", default_factory=list", ", skip=1", ", skip=(1, None)", ", skip=lambda v: v == 1", ", skip_exc=KeyError",
                       ", skip=lambda v: 1/0, skip_exc=ZeroDivisionError"):
                yield t, 'Coalesce(%s, %s%s)' % (combo[0], combo[1], kw)


NATIVE = {
    'core._handle_tuple': _n.differ('core._handle_tuple', 'ref_auto.tuple_ref', _tuple_cases),
    'core._handle_dict': _n.differ('core._handle_dict', 'ref_auto.dict_ref', _dict_cases, prelude='from collections import OrderedDict'),
    'core._handle_list': _n.differ('core._handle_list', 'ref_auto.list_ref', _list_cases),
    'core.Coalesce.glomit': _n.differ('core.Coalesce.glomit', 'ref_auto.coalesce_ref', _coalesce_cases, mode='method'),
    'core.AUTO': _n.differ('core.AUTO', 'ref_auto.auto_ref', lambda: [(t, s) for t in _n.TARGETS for s in _SUBS + ["('a', len)", "3"]]),
}
