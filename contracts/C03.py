"""C03 — auto-mode restructuring is compositional in its sub-specs."""
from pyvc.verify import Post, Case, Equiv
from contracts import common

PROPERTY = 'C03'
REF_MODULES = ['ref_auto', 'ref_core', 'ref_match', 'ref_reduce', 'ref_extra']


def config(cfg):
    common.apply(cfg)
    cfg.summaries['core._ArgValuator'] = 'new_argvaluator'


def contracts():
    cs = []
    cs.append(Equiv('core._handle_tuple', 'ref_auto.tuple_ref', args={'target': 'ref', 'spec': 'seq', 'scope': 'chainmap'},
                    loops={1: dict(vars=[('res', 'ref'), ('scope', 'chainmap')], ref_vars=[('cur', 'ref'), ('scope', 'chainmap')])}))
    cs.append(Equiv('core._handle_dict', 'ref_auto.dict_ref', args={'target': 'ref', 'spec': 'ref', 'scope': 'chainmap'},
                    loops={1: dict(vars=[('ret', 'ref'), ('target', 'ref'), ('scope', 'chainmap')],
                                   ref_vars=[('out', 'ref'), ('target', 'ref'), ('scope', 'chainmap')])}))
    cs.append(Equiv('core._handle_list', 'ref_auto.list_ref', args={'target': 'ref', 'spec': 'ref', 'scope': 'chainmap'},
                    loops={1: dict(vars=[('ret', 'list'), ('scope', 'chainmap'), ('subspec', 'ref'), ('base_path', 'list')],
                                   ref_vars=[('out', 'list'), ('scope', 'chainmap'), ('sub', 'ref'), ('here', 'list')])}))
    cs.append(Equiv('core.Coalesce.glomit', 'ref_auto.coalesce_ref', args={'self': 'inst:core.Coalesce', 'target': 'ref', 'scope': 'chainmap'},
                    loops={1: dict(vars=[('skipped', 'list'), ('ret', 'ref'), ('self', 'inst:core.Coalesce'), ('target', 'ref'), ('scope', 'chainmap')],
                                   ref_vars=[('skipped', 'list'), ('value', 'ref'), ('self', 'inst:core.Coalesce'), ('target', 'ref'), ('scope', 'chainmap')], locals=['wanted'])}))
    cs.append(Equiv('core.Pipe.glomit', 'ref_auto.pipe_ref', args={'self': 'inst:core.Pipe', 'target': 'ref', 'scope': 'chainmap'}))
    cs.append(Equiv('core.Val.glomit', 'ref_auto.val_ref', args={'self': 'inst:core.Val', 'target': 'ref', 'scope': 'chainmap'}))
    cs.append(Equiv('core.Spec.glomit', 'ref_auto.spec_ref', args={'self': 'inst:core.Spec', 'target': 'ref', 'scope': 'chainmap'}))
    cs.append(Equiv('core.Call.glomit', 'ref_auto.call_ref', args={'self': 'inst:core.Call', 'target': 'ref', 'scope': 'chainmap'}))
    cs.append(Equiv('core.Ref.glomit', 'ref_auto.ref_ref', args={'self': 'inst:core.Ref', 'target': 'ref', 'scope': 'chainmap'}))
    cs.append(Equiv('core.AUTO', 'ref_auto.auto_ref', args={'target': 'ref', 'spec': 'ref', 'scope': 'chainmap'}))
    from contracts import C08
    cs += [c for c in C08.contracts() if c.label in ('core._glom', 'core.chain_child')]      # dispatcher: T first, glomit objects (not classes), then the mode
    cs.append(Equiv('core._has_callable_glomit', 'ref_core.has_callable_glomit_ref', args={'obj': 'ref'}))
    cs.append(Equiv('ref_auto.pipe_law_rhs', 'ref_auto.pipe_law_lhs', label='LEMMA C03.pipe',
                    args={'target': 'ref', 'a': 'ref', 'b': 'ref', 'scope': 'chainmap'},
                    requires=['True']))
    from contracts import extra
    cs += common.shared(extra, ['core.Invoke.glomit', 'core.Coalesce.__init__', 'core.Call.__init__'])
    return cs


ASSUMPTIONS = [
    'G-contract: scope[glom](t, s, sc) is an uninterpreted transformer of the whole modelled state (opaque user world token, scope frames, lists); '
    'handlers are proved equal to their reference for every behaviour of it (structural induction on the evaluation)',
    'A-user: user callables / registered handlers are opaque primitives that may raise anything derived from BaseException and do not reach glom-internal objects they were not passed',
    'ScopeInv/FrameInv: the bookkeeping keys (Path, MODE, MIN_MODE, TargetRegistry, glom, UP, T, CHILD_ERRORS) are bound in every scope (established by glom()/_glom, see C05/C07)',
    'callee summaries assumed here and proved under their own checks: arg_val, _t_eval, TargetRegistry.get_handler, Path.from_text',
    'dict specs behave like builtin dicts (items() yields (key, value) pairs); partial correctness (termination of user specs is not claimed)',
]
TRUSTED = ['reference semantics contracts/ref_auto.py (written from the property statement; also executed natively by the differential replay)']
EXPLANATION = ('_handle_tuple/_handle_dict/_handle_list/Coalesce.glomit/Pipe/Val/Spec/Call/Ref.glomit/AUTO are proved equal to their reference '
               'semantics (same result or exception, same order of opaque events, same modelled heap) with symbolic-length loops justified by '
               'loop-body equivalence; the pipe law is a lemma over the reference.')

CANARIES = [
    {'name': 'tuple: swap SKIP/STOP', 'module': 'core', 'only': ['core._handle_tuple'], 'expect': ['core._handle_tuple'],
     'old': "        if nxt is SKIP:\n            continue\n        if nxt is STOP:\n            break\n        res = nxt",
     'new': "        if nxt is STOP:\n            continue\n        if nxt is SKIP:\n            break\n        res = nxt"},
    {'name': 'tuple: drop chain_child', 'module': 'core', 'only': ['core._handle_tuple'], 'expect': ['core._handle_tuple'],
     'old': "        scope = chain_child(scope)\n        nxt = scope[glom]", 'new': "        nxt = scope[glom]"},
    {'name': 'dict: SKIP not honoured', 'module': 'core', 'only': ['core._handle_dict'], 'expect': ['core._handle_dict'],
     'old': "        if val is SKIP:\n            continue\n        if type(field) in (Spec, TType):", 'new': "        if type(field) in (Spec, TType):"},
    {'name': 'list: STOP appended', 'module': 'core', 'only': ['core._handle_list'], 'expect': ['core._handle_list'],
     'old': "        if val is STOP:\n            break\n        ret.append(val)", 'new': "        ret.append(val)\n        if val is STOP:\n            break"},
    {'name': 'coalesce: continue after success', 'module': 'core', 'only': ['core.Coalesce'], 'expect': ['core.Coalesce'],
     'old': "                if not self.skip_func(ret):\n                    break", 'new': "                if not self.skip_func(ret):\n                    continue"},
    {'name': 'call: kwargs evaluated before args', 'module': 'core', 'only': ['core.Call'], 'expect': ['core.Call'],
     'old': "        return r(self.func)(*r(self.args), **r(self.kwargs))", 'new': "        kw = r(self.kwargs)\n        return r(self.func)(*r(self.args), **kw)"},
]

from contracts import native as _n
_SUBS = ["'a'", "T['a']", "lambda t: SKIP", "lambda t: STOP", "lambda t: t", "len", "Val(1)", "'missing'", "['b']", "{'k': 'a'}", "Val(SKIP)", "Val(STOP)"]


def _tuple_cases():
    import itertools
    for t in _n.TARGETS:
        for n in (0, 1, 2, 3):
            for combo in itertools.product(_SUBS[:8], repeat=n):
                yield t, '(' + ''.join(c + ', ' for c in combo) + ')'


def _dict_cases():
    import itertools
    for t in _n.TARGETS:
        for combo in itertools.product(_SUBS, repeat=2):
            yield t, "{'x': %s, T['a']: %s}" % combo
            yield t, "OrderedDict([('y', %s), ('x', %s)])" % combo


def _list_cases():
    for t in _n.TARGETS:
        for s in _SUBS:
            yield t, '[%s]' % s


def _coalesce_cases():
    import itertools
    for t in _n.TARGETS:
        for combo in itertools.product(_SUBS[:8], repeat=2):
            for kw in ("", ", default=T['a']", ", default_factory=list", ", skip=1", ", skip=(1, None)", ", skip=lambda v: v == 1", ", skip_exc=KeyError",
                       ", skip=lambda v: 1/0, skip_exc=ZeroDivisionError"):
                yield t, 'Coalesce(%s, %s%s)' % (combo[0], combo[1], kw)


NATIVE = {
    'core._handle_tuple': _n.differ('core._handle_tuple', 'ref_auto.tuple_ref', _tuple_cases),
    'core._handle_dict': _n.differ('core._handle_dict', 'ref_auto.dict_ref', _dict_cases, prelude='from collections import OrderedDict'),
    'core._handle_list': _n.differ('core._handle_list', 'ref_auto.list_ref', _list_cases),
    'core.Coalesce.glomit': _n.differ('core.Coalesce.glomit', 'ref_auto.coalesce_ref', _coalesce_cases, mode='method'),
    'core.AUTO': _n.differ('core.AUTO', 'ref_auto.auto_ref', lambda: [(t, s) for t in _n.TARGETS for s in _SUBS + ["('a', len)", "3"]]),
}
