"""Reference semantics of T-expression / path evaluation (C01, C02, C14), written from the property statements."""
try:
    assume
except NameError:
    def assume(cond):
        return None
from glom.core import (glom, T, S, A, Path, TType, TargetRegistry, PathAccessError, BadSpec, Call, arg_val, _s_first_magic, _assign_op,
                       _extend_children, _t_eval, UnregisteredTarget)


def teval_ref(target, _t, scope):
    """replays the recorded operations left to right on the running value; each argument is first argument-evaluated against
    the ORIGINAL target; the first operation that fails with one of its documented error kinds raises
    PathAccessError(error, path, position) at once (nothing later is touched); no operation is dropped"""
    ops = _t.__ops__
    root = ops[0]
    end = len(ops)
    i = 1
    if root is T:
        cur = target
    elif root is S or root is A:
        if root is A:
            end = end - 2
            if end < 1:
                raise BadSpec('cannot assign without destination')
        cur = scope
        if end > 1 and ops[1] in ('.', 'P'):
            cur = _s_first_magic(cur, ops[2], _t)
            i = 3
        elif root is S and end > 1 and ops[1] == '(':
            _, kwargs = ops[2]
            scope.update({k: arg_val(target, v, scope) for k, v in kwargs.items()})
            return target
    else:
        raise ValueError('TType instance with invalid root')
    while i < end:
        op = ops[i]
        arg = arg_val(target, ops[i + 1], scope)
        position = i // 2          # ops are (root, op1, arg1, op2, arg2, ...): operation k sits at index 2k + 1
        if op == '.':
            try:
                cur = getattr(cur, arg)
            except AttributeError as e:
                raise PathAccessError(e, Path(_t), position)
        elif op == '[':
            try:
                cur = cur[arg]
            except (KeyError, IndexError, TypeError) as e:
                raise PathAccessError(e, Path(_t), position)
        elif op == 'P':
            handler = scope[TargetRegistry].get_handler('get', cur, path=ops[2:i + 2:2])
            try:
                cur = handler(cur, arg)
            except Exception as e:
                raise PathAccessError(e, Path(_t), position)
        elif op in 'xX':
            children = []
            lookup = scope[TargetRegistry].get_handler
            if op == 'x':
                _extend_children(children, cur, lookup)
            elif op == 'X':
                seen = set()
                seen.add(id(cur))                 # the root itself counts as expanded: a cycle through it must not expand it again
                _extend_children(children, cur, lookup)
                for item in children:
                    if id(item) not in seen:
                        seen.add(id(item))
                        _extend_children(children, item, lookup)
                children.insert(0, cur)
            results = []
            rest = TType()
            rest.__ops__ = (root,) + ops[i + 2:]
            for child in children:
                try:
                    results.append(_t_eval(child, rest, scope))
                except PathAccessError:
                    pass
            cur = results
            break
        elif op == '(':
            cargs, ckwargs = arg
            scope[Path] += ops[2:i + 2:2]
            cur = scope[glom](target, Call(cur, cargs, ckwargs), scope)
        else:
            try:
                if op == '+':
                    cur = cur + arg
                elif op == '-':
                    cur = cur - arg
                elif op == '*':
                    cur = cur * arg
                elif op == '#':
                    cur = cur // arg
                elif op == '/':
                    cur = cur / arg
                elif op == '%':
                    cur = cur % arg
                elif op == ':':
                    cur = cur ** arg
                elif op == '&':
                    cur = cur & arg
                elif op == '|':
                    cur = cur | arg
                elif op == '^':
                    cur = cur ^ arg
                elif op == '~':
                    cur = ~cur
                elif op == '_':
                    cur = -cur
            except (TypeError, ZeroDivisionError) as e:
                raise PathAccessError(e, Path(_t), position)
        i = i + 2
    if root is A:
        last_op, last_arg = ops[-2:]
        if cur is scope:
            last_op = '['
        _assign_op(dest=cur, op=last_op, arg=last_arg, val=target, path=_t, scope=scope)
        return target
    return cur


def get_sequence_item_ref(target, index):
    """the default `get` of lists and tuples: the index is integer-coerced, then plain item access"""
    return target[int(index)]


def path_glomit_ref(self, target, scope):
    """a Path spec evaluates its recorded steps"""
    return _t_eval(target, self.path_t, scope)


def extend_children_ref(children, item, get_handler):
    """children of a value: with both a `keys` and a `get` handler, get(item, key) for every key in order, entries whose access raises
    are skipped and a failing key enumeration keeps what was collected; otherwise the `iterate` handler's items (nothing if it
    raises); values with neither have no children"""
    try:
        keys = get_handler('keys', item)
        get = get_handler('get', item)
    except UnregisteredTarget:
        try:
            iterate = get_handler('iterate', item)
        except UnregisteredTarget:
            return None
        try:
            children.extend(iterate(item))
        except Exception:
            pass
        return None
    try:
        for key in keys(item):
            try:
                children.append(get(item, key))
            except Exception:
                pass
    except Exception:
        pass
    return None


def stars_ref(self):
    """number of wildcard steps of a T expression"""
    codes = self.__ops__[1::2]
    return codes.count('x') + codes.count('X')
