"""C18 — T and Path are faithful values (proof part: pickle pair, Path sequence laws, concatenation)."""
from pyvc.verify import Post, Case, Equiv, NativeFacts

PROPERTY = 'C18'
REF_MODULES = ['h_path', 'ref_extra']
FIELD_TYPES = {'core.Path.path_t': 'inst:core.TType', 'core.TType.__ops__': 'seq'}


def config(cfg):
    cfg.field_types.update(FIELD_TYPES)       # (also what a check that claims these contracts through common.shared gets)


REP = ['len(ops(self)) % 2 == 1']          # representation invariant of a path: (root, op1, arg1, ..., opn, argn)

_SLICE_CASES = []
for a in ('int', 'none'):
    for b in ('int', 'none'):
        for c in ('none', 'one'):
            _SLICE_CASES.append((a, b, c))


def _slice_case(a, b, c):
    tag = 'slice:%s,%s,%s' % (a, b, 'none' if c == 'none' else 'int')
    req = list(REP)
    lo = 'norm(i.start, nsteps(self))' if a == 'int' else '0'
    hi = 'norm(i.stop, nsteps(self))' if b == 'int' else 'nsteps(self)'
    if a == 'int':
        req.append('-nsteps(self) <= i.start <= nsteps(self)')       # "in-range slicing"
    if b == 'int':
        req.append('-nsteps(self) <= i.stop <= nsteps(self)')
    if c == 'one':
        req.append('i.step == 1')
    return Case('slice[%s:%s:%s]' % (a, b, c), args={'self': 'inst:core.Path', 'i': tag}, requires=req,
                ensures=['ops(result)[0] is ops(self)[0]',
                         'same(ops(result)[1:], subseq(ops(self), 1 + 2 * (%s), max(1 + 2 * (%s), 1 + 2 * (%s))))' % (lo, hi, lo),
                         'len(ops(result)) % 2 == 1'])


def contracts():
    cs = []
    cs.append(Post('core.Path.__getitem__', helpers='h_path', cases=[
        Case('int', args={'self': 'inst:core.Path', 'i': 'int'}, requires=REP,
             ensures=['len(ops(result)) == 3', 'ops(result)[0] is ops(self)[0]',
                      'ops(result)[1] is ops(self)[2 * norm(i, nsteps(self)) + 1]',
                      'ops(result)[2] is ops(self)[2 * norm(i, nsteps(self)) + 2]'],
             raises={'IndexError': 'not (-nsteps(self) <= i < nsteps(self))'}),
    ] + [_slice_case(*x) for x in _SLICE_CASES]))
    cs.append(Post('core.Path.__len__', helpers='h_path', cases=[
        Case('any', args={'self': 'inst:core.Path'}, requires=REP, ensures=['result == nsteps(self)', 'result >= 0'])]))
    cs.append(Post('core.Path.values', helpers='h_path', cases=[
        Case('any', args={'self': 'inst:core.Path'}, ghosts={'k': 'int'}, requires=REP,
             ensures=['len(result) == nsteps(self)', 'not (0 <= k < nsteps(self)) or result[k] is ops(self)[2 * k + 2]'])]))
    cs.append(Post('core.Path.items', helpers='h_path', cases=[
        Case('any', args={'self': 'inst:core.Path'}, ghosts={'k': 'int'}, requires=REP,
             ensures=['len(result) == nsteps(self)',
                      'not (0 <= k < nsteps(self)) or (result[k][0] is ops(self)[2 * k + 1] and result[k][1] is ops(self)[2 * k + 2] and len(result[k]) == 2)'])]))
    cs.append(Post('core.Path.__eq__', helpers='h_path', cases=[
        Case('path', args={'self': 'inst:core.Path', 'other': 'inst:core.Path'}, ensures=['result == (ops(self) == ops(other))']),
        Case('t', args={'self': 'inst:core.Path', 'other': 'inst:core.TType'}, ensures=['result == (ops(self) == other.__ops__)']),
        Case('other', args={'self': 'inst:core.Path', 'other': 'ref'},
             requires=['type(other) is not Path', 'type(other) is not TType'], ensures=['result == False'])]))
    cs.append(Post('core.Path.__ne__', helpers='h_path', cases=[
        Case('path', args={'self': 'inst:core.Path', 'other': 'inst:core.Path'}, ensures=['result == (not (ops(self) == ops(other)))'])]))
    cs.append(Post('core.Path.startswith', helpers='h_path', cases=[
        Case('path', args={'self': 'inst:core.Path', 'other': 'inst:core.Path'},
             ensures=['result == (ops(self)[:len(ops(other))] == ops(other))']),
        Case('t', args={'self': 'inst:core.Path', 'other': 'inst:core.TType'},
             ensures=['result == (ops(self)[:len(other.__ops__)] == other.__ops__)']),
        Case('bad', args={'self': 'inst:core.Path', 'other': 'int'}, ensures=['False'], raises={'TypeError': 'True'})]))
    cs.append(Post('core.Path.from_t', helpers='h_path', cases=[
        Case('any', args={'self': 'inst:core.Path'}, requires=REP + ['ops(self)[0] is T or ops(self)[0] is S'],
             ensures=['ops(result)[0] is T', 'same(ops(result)[1:], ops(self)[1:])'])]))
    # repr of slice arguments: a bound is omitted exactly when it is None (so that eval(repr(x)) denotes the same slice)
    for shape in ('int,int,none', 'int,none,none', 'none,int,none', 'none,none,none', 'int,int,int', 'none,none,int', 'int,none,int', 'none,int,int'):
        a, b, c = shape.split(',')
        txt = lambda part, kind: ('bbrepr(x.%s)' % part) if kind == 'int' else "''"
        exp = "%s + ':' + %s" % (txt('start', a), txt('stop', b))
        if c == 'int':
            exp += " + ':' + %s" % txt('step', c)
        cs.append(Post('core._format_slice', label='core._format_slice[%s]' % shape, cases=[
            Case('slice', args={'x': 'slice:' + shape}, ensures=['result == ' + exp])]))
    # pickling: __setstate__(__getstate__(x)) restores the ops exactly, for each of the three roots
    cs.append(Post('h_path.pickle_roundtrip', helpers='h_path', label='LEMMA C18.pickle', cases=[
        Case(root, args={'x': 'inst:core.TType', 'fresh': 'inst:core.TType'}, requires=['len(x.__ops__) >= 1', 'x.__ops__[0] is %s' % root],
             ensures=['result == x.__ops__']) for root in ('T', 'S', 'A')]))
    # concatenation: Path(p, q) has the steps of p followed by the steps of q
    cs.append(Post('core.Path.__init__', helpers='h_path', label='core.Path.__init__[concat]', cases=[
        Case('two-paths', args={'self': 'inst:core.Path', 'path_parts': 'tuple:inst:core.Path,inst:core.Path'},
             requires=['len(ops(path_parts[0])) % 2 == 1', 'len(ops(path_parts[1])) % 2 == 1',
                       'ops(path_parts[0])[0] is T', 'ops(path_parts[1])[0] is T', 'len(T.__ops__) == 1', 'T.__ops__[0] is T'],
             ensures=['same(ops(self), ops(path_parts[0]) + ops(path_parts[1])[1:])'],
             may_raise=['BadSpec'])],
        loops={2: dict(invariant=['i % 2 == 1', '1 <= i <= len(sub_parts)',
                                  'same(path_t.__ops__, path_t__entry.__ops__ + sub_parts[1:i])', 'len(path_t.__ops__) >= 1',
                                  'path_t.__ops__[0] is T'], pure=True)}))
    # rendering is a function of the expression alone: the repr helpers write nothing but their own fresh locals and no module-level cache exists
    from contracts import write_scan
    import json as _json, os as _os
    REPR_FUNCS = {'_format_t', '_format_path', '_format_slice', 'Path.__repr__', 'TType.__repr__', 'format_invocation', '_BBRepr.repr1', '_BBRepr.__init__',
                  '_BBReprFormatter.convert_field'}

    class _ReprPure(NativeFacts):
        def run(self, v):
            self.items = [it for it, site in zip(write_scan.items(v.repo), write_scan.scan(v.repo)) if site[0] == 'core' and site[1] in REPR_FUNCS]
            allowed = {tuple(x) for x in _json.load(open(_os.path.join(_os.path.dirname(_os.path.abspath(__file__)), 'module_globals_allowed.json')))}
            found = [g for g in write_scan.module_globals(v.repo) if g[0] == 'core']
            self.items.append(('module-level mutable state (core)', 'no module-level container beyond the recorded ones (a repr cache would be one): %r' % (found,),
                               lambda f, found=found, allowed=allowed: set(found) <= allowed))
            fns = {fi.qual for fi in v.repo.functions.values() if fi.module == 'core' and ('format' in fi.qual.lower() or fi.qual.endswith('__repr__') or 'BBRepr' in fi.qual)}
            known = REPR_FUNCS | {q for q in fns if q.endswith('__repr__')} | {'format_oneline_trace', 'format_target_spec_trace', '_format_trace_value'}
            self.items.append(('rendering helpers', 'the functions that take part in rendering are the recorded ones (a new helper or wrapper needs review): %r' % sorted(fns - known),
                               lambda f, fns=fns, known=known: fns <= known))
            NativeFacts.run(self, v)
    cs.append(_ReprPure('C18.repr-pure', [], func='rendering helpers in glom/core.py'))
    # rendering (regression equivalence only; the round trip through the parser is the bounded stand-in)
    cs.append(Equiv('core._format_path', 'ref_extra.format_path_ref', args={'t_path': 'seq'}, requires=['len(t_path) % 2 == 0'],
                    config=lambda cfg: cfg.summaries.update({'core._format_t': 'format_t'}),
                    loops={1: dict(vars=[('i', 'int'), ('t_path', 'seq'), ('path_parts', 'list'), ('cur_t_path', 'list')], inv=['i % 2 == 0', 'i >= 0']),
                           2: dict(vars=[])}))
    cs.append(Equiv('core._format_t', 'ref_extra.format_t_ref', args={'path': 'seq', 'root': 'ref'}, requires=['len(path) % 2 == 0', 'root is T or root is S or root is A'],
                    config=lambda cfg: (cfg.summaries.update({'core._format_path': 'format_path', 'core._format_slice': 'format_slice', 'core.format_invocation': 'format_invocation'}), cfg.summaries.pop('core._format_t', None)),
                    loops={1: dict(vars=[('i', 'int'), ('path', 'seq'), ('prepr', 'list')], inv=['i % 2 == 0', 'i >= 0']),
                           2: dict(vars=[]), 3: dict(vars=[('path', 'seq'), ('i', 'int')]), 4: dict(vars=[('arg_path', 'seq')])}))
    # the other shapes of Path(...): no parts -> the root T itself; a non-T part -> one 'P' step holding that very object; a T part not rooted at T is rejected
    TT = ['len(T.__ops__) == 1', 'T.__ops__[0] is T']
    cs.append(Post('core.Path.__init__', helpers='h_path', label='core.Path.__init__[shapes]', cases=[
        Case('empty', args={'self': 'inst:core.Path', 'path_parts': 'tuple:'}, requires=TT, ensures=['self.path_t is T']),
        Case('one-part', args={'self': 'inst:core.Path', 'path_parts': 'tuple:ref'}, requires=TT + ['type(path_parts[0]) is not Path', 'type(path_parts[0]) is not TType',
                                                                                                   'not isinstance(path_parts[0], Path)', 'not isinstance(path_parts[0], TType)'],
             ensures=["same(ops(self), (T, 'P', path_parts[0]))"]),
        Case('text-parts', args={'self': 'inst:core.Path', 'path_parts': 'tuple:str,int'}, requires=TT,
             ensures=["same(ops(self), (T, 'P', path_parts[0], 'P', path_parts[1]))"]),
        Case('T-first', args={'self': 'inst:core.Path', 'path_parts': 'tuple:inst:core.TType,str'},
             requires=TT + ['len(path_parts[0].__ops__) % 2 == 1'],
             ensures=["same(ops(self), path_parts[0].__ops__ + ('P', path_parts[1]))"]),
        Case('bad-root', args={'self': 'inst:core.Path', 'path_parts': 'tuple:str,inst:core.TType'},
             requires=TT + ['len(path_parts[1].__ops__) >= 1', 'path_parts[1].__ops__[0] is S'], ensures=['False'], raises={'ValueError': 'True'})]))
    cs.append(Post('core.Path.startswith', helpers='h_path', label='core.Path.startswith[text]', cases=[
        Case('text', args={'self': 'inst:core.Path', 'other': 'str'}, requires=TT,
             ensures=["result == (ops(self)[:3] == (T, 'P', other))"])]))
    cs.append(Post('core._format_slice', label='core._format_slice[not-a-slice]', cases=[
        Case('int', args={'x': 'int'}, ensures=['result == bbrepr(x)'])]))
    from contracts import extra as _ex
    cs.append(_ex.bbrepr_facts())
    from contracts import C02 as _c02
    import contracts.common as _common
    cs += _common.shared(_c02, ['core._t_child'])
    return cs


ASSUMPTIONS = [
    'tuple equality on sequences of steps is an uninterpreted relation that contains identity (element-wise == of user values is opaque)',
    'integers are mathematical (exact for Python)',
    'representation invariant len(ops) == 2n+1 is assumed on entry (established by _t_child / Path.__init__, which only append pairs)',
]
TRUSTED = ['z3 sequence theory for tuple slicing/concatenation; slice clamping model cross-checked against CPython (pyvc/z.py self-test)']
EXPLANATION = ('Path.__getitem__/__len__/values/items/__eq__/__ne__/startswith/from_t/__init__ and the pickle pair are symbolically executed '
               'from the working tree for every path length and every index / in-range slice bound; eval(repr(x)) and stepped slices '
               'are covered by the labelled bounded stand-in only; C18.repr-pure is the frame condition of the rendering helpers (no shared state).')


# ---------------------------------------------------------------------------------------------------------------------
# native witness search (replay of refuted obligations against the real code; decides nothing by itself)
def _native_getitem(name, model):
    from glom import Path
    cands = []
    try:
        cands.append(int(model.get('a_i')))
    except Exception:
        pass
    for n in range(0, 5):
        p = Path(*['s%d' % k for k in range(n)])
        tup = tuple('s%d' % k for k in range(n))
        for i in cands + list(range(-7, 8)):
            try:
                exp = (tup[i],)
            except IndexError:
                exp = 'IndexError'
            try:
                got = p[i].values()
            except IndexError:
                got = 'IndexError'
            if got != exp:
                code = ("from glom import Path\np = Path(*%r)\ntry:\n    got = p[%d].values()\nexcept IndexError:\n    got = 'IndexError'\n"
                        "print('Path(*%r)[%d] ->', got, '; tuple of steps gives', %r)\nassert got == %r\n" % (list(tup), i, list(tup), i, exp, exp))
                return {'input': {'path_steps': list(tup), 'index': i}, 'observed': repr(got), 'expected': repr(exp), 'replay_code': code}
    return None


NATIVE = {'core.Path.__getitem__[int]': _native_getitem}


# ---------------------------------------------------------------------------------------------------------------------
# bounded stand-ins (labelled bounded; never counted as proved)
def bounded_stepped_slices(tier, seed):
    """Path slicing with a step: the zip/[::step]/sum(...) branch is outside the proved subset.
    Bound: lengths <= 6, every (start, stop, step) in ([-8, 8] + None)^3, step != 0."""
    from glom import Path
    vals = [None] + list(range(-8, 9))
    cases, failures, seen = 0, [], set()
    for n in range(0, 7 if tier == 'thorough' else 5):
        tup = tuple('s%d' % k for k in range(n))
        p = Path(*tup)
        for a in vals:
            for b in vals:
                if not all(x is None or -n <= x <= n for x in (a, b)):
                    continue                      # the statement speaks about in-range slicing
                for c in vals:
                    if c == 0:
                        continue
                    cases += 1
                    exp = tup[a:b:c]
                    try:
                        got = p[a:b:c].values()
                    except Exception as e:
                        got = repr(e)
                    if got != exp:
                        key = 'neg-step-slice' if (c is not None and c < 0 and (a is not None or b is not None)) else 'slice'
                        if key in seen:
                            continue
                        seen.add(key)
                        code = ("from glom import Path\np = Path(*%r)\ngot = p[%r:%r:%r].values()\nprint(got, 'expected', %r)\nassert got == %r\n"
                                % (list(tup), a, b, c, exp, exp))
                        failures.append({'key': key, 'input': {'steps': list(tup), 'slice': [a, b, c]}, 'observed': repr(got), 'expected': repr(exp),
                                         'replay_code': code})
    return {'name': 'stepped/in-range slices vs tuple slicing', 'bound': 'len<=%d, bounds and steps in [-8,8] or None, in-range bounds' % (6 if tier == 'thorough' else 4),
            'cases': cases, 'failures': failures, 'label': 'bounded'}


def bounded_eval_repr(tier, seed):
    """eval(repr(x)) reconstructs an object with the same repr and the same ops, and evaluates identically on a target pool.
    Needs the Python parser, which no contract can express.  Bound: T/S/A-rooted expressions and Paths with <= 3 (quick) / 4
    (thorough) steps over the literal catalogue."""
    import itertools, pickle, glom
    from glom import T, S, A, Path
    lits = [0, -1, 'a', "it's", 'a.b', 'q"q', None, 1.5, (1, 'x'), slice(1, None), slice(None, 2, 2), len, int]
    def steps():
        out = []
        for l in lits[:8]:
            out.append(('[', l))
        out += [('.', 'attr'), ('.', 'b2'), ('(', ((), {})), ('(', ((1, 'x'), {})), ('(', ((), {'k': 2})), ('x', None), ('X', None),
                ('[', T['a']), ('(', ((T.b,), {})), ('[', slice(1, None)), ('[', (1, 'x'))]
        return out
    def build(root, seq):
        cur = root
        for op, arg in seq:
            if op == '[': cur = cur[arg]
            elif op == '.': cur = getattr(cur, arg)
            elif op == '(': cur = cur(*arg[0], **arg[1])
            elif op == 'x': cur = cur.__star__()
            elif op == 'X': cur = cur.__starstar__()
        return cur
    env = {'T': T, 'S': S, 'A': A, 'Path': Path, 'len': len, 'int': int}
    targets = [{'a': {'attr': 1}}, [[1, 2], [3]], {'attr': [1, 2, 3]}, 'str', {0: 'z', 'a': 'y', "it's": 1, 'a.b': 2}]
    depth = 3 if tier == 'thorough' else 2
    cases, failures = 0, []
    st = steps()
    for d in range(0, depth + 1):
        for seq in itertools.product(st, repeat=d):
            for root, rname in ((T, 'T'), (S, 'S'), (A, 'A')):
                if rname == 'S' and seq and seq[0][0] == '(' and (seq[0][1][0] or not seq[0][1][1]):
                    continue
                try:
                    x = build(root, seq)
                except glom.BadSpec:
                    continue
                except TypeError:
                    continue
                cases += 1
                r = repr(x)
                try:
                    y = eval(r, dict(env))
                    ok = repr(y) == r and len(y.__ops__) == len(x.__ops__) and y.__ops__[0] is x.__ops__[0]
                    z = pickle.loads(pickle.dumps(x))
                    ok = ok and z.__ops__[0] is x.__ops__[0] and repr(z) == r
                except Exception as e:
                    ok = False
                if ok and rname == 'T':
                    for t in targets:
                        def run(spec):
                            try:
                                return ('ok', repr(glom.glom(t, spec)))
                            except Exception as e:
                                return ('err', type(e).__name__)
                        if run(x) != run(y):
                            ok = False
                if not ok and len(failures) < 3:
                    failures.append({'key': 'eval-repr', 'input': {'repr': r}, 'observed': 'eval(repr(x)) differs from x', 'expected': 'round trip',
                                     'replay_code': "from glom import *\nimport glom\nx = %s\nassert repr(eval(repr(x))) == repr(x)\n" % r})
    # the text depends on the expression alone, not on what was printed before: literals that are == but not the same (1 / 1.0 / True,
    # 0 / 0.0 / False, 'a' / b'a' are not ==) printed one after the other, in both orders, keep their own spelling and type
    groups = [[1, 1.0, True], [0, 0.0, False, -0.0], [(1, 2), (1.0, 2.0)], [2, 2.0]]
    for grp in groups:
        for order in (grp, list(reversed(grp))):
            for mk, nm in ((lambda v: T[v], 'T[%s]'), (lambda v: T.f(v), 'T.f(%s)'), (lambda v: T['k'] + v, "T['k'] + %s"), (lambda v: Path('k', T[v]), "Path('k', T[%s])"),
                           (lambda v: S.x[v], 'S.x[%s]')):
                for v in order:
                    cases += 1
                    x = mk(v)
                    r = repr(x)
                    lit = ', '.join(repr(e) for e in v) if isinstance(v, tuple) and '[%s]' in nm else repr(v)
                    if r != nm % lit and len(failures) < 3:
                        failures.append({'key': 'eval-repr', 'input': {'literal': repr(v), 'printed after': [repr(o) for o in order[:order.index(v)]]},
                                         'observed': r, 'expected': nm % lit, 'replay_code': None})
    # Paths
    for d in range(0, depth + 1):
        for seq in itertools.product(lits[:9] + [T.a, T['k'], T.__star__()], repeat=d):
            cases += 1
            p = Path(*seq)
            r = repr(p)
            try:
                q = eval(r, dict(env))
                ok = repr(q) == r and q == p and pickle.loads(pickle.dumps(p)) == p
            except Exception:
                ok = False
            if not ok and len(failures) < 3:
                failures.append({'key': 'eval-repr-path', 'input': {'repr': r}, 'observed': 'eval(repr(p)) differs', 'expected': 'round trip',
                                 'replay_code': "from glom import *\np = %s\nassert eval(repr(p)) == p\n" % r})
    return {'name': 'eval(repr(x)) / pickle round trip', 'bound': '<= %d steps over the literal catalogue, roots T/S/A, 5 targets' % depth,
            'cases': cases, 'failures': failures, 'label': 'bounded'}


from contracts import extra as _extra2
BOUNDED = [bounded_stepped_slices, bounded_eval_repr, _extra2.bounded_path_composition]

CANARIES = [
    {'name': 'getitem: index bound off by one again', 'module': 'core', 'only': ['core.Path.__getitem__'], 'expect': ['core.Path.__getitem__'],
     'old': "            if start < 0 or start >= len(cur_t_path):", 'new': "            if start < 0 or start > len(cur_t_path):"},
    {'name': 'values: wrong stride start', 'module': 'core', 'only': ['core.Path.values'], 'expect': ['core.Path.values'],
     'old': "        return cur_t_path[2::2]", 'new': "        return cur_t_path[1::2]"},
    {'name': '__len__: counts ops not steps', 'module': 'core', 'only': ['core.Path.__len__'], 'expect': ['core.Path.__len__'],
     'old': "        return (len(self.path_t.__ops__) - 1) // 2", 'new': "        return len(self.path_t.__ops__) // 2 + 1"},
    {'name': 'setstate: root table swapped', 'module': 'core', 'only': ['LEMMA C18.pickle'], 'expect': ['LEMMA C18.pickle'],
     'old': "self.__ops__ = ({'T': T, 'S': S, 'A': A}[state[0]],) + state[1:]", 'new': "self.__ops__ = ({'T': T, 'S': A, 'A': S}[state[0]],) + state[1:]"},
    {'name': 'repr text memoised in a module-level dict', 'module': 'core', 'only': ['C18.repr-pure'], 'expect': ['C18.repr-pure'], 'old': 'def _format_t(path, root=T):\n    prepr = [', 'new': '_FORMAT_MEMO = {}\n\n\ndef _format_t(path, root=T):\n    _FORMAT_MEMO[len(path)] = root\n    prepr = ['},
    {'name': 'Path(): a non-T part becomes an item step', 'module': 'core', 'only': ['core.Path.__init__[shapes]'], 'expect': ['core.Path.__init__[shapes]'], 'old': "                path_t = _t_child(path_t, 'P', part)", 'new': "                path_t = _t_child(path_t, '[', part)"},
]
