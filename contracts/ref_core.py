"""Reference semantics of the evaluator core: _glom (dispatch + error bookkeeping), chain_child, glom() (C03, C04, C05, C07, C08)."""
try:
    assume
except NameError:
    def assume(cond):
        return None
import copy
from collections import ChainMap
from glom.matching import TypeMatchError, MatchError, _RE_TYPES
from glom.core import (glom, T, S, A, Spec, TType, Path, Inspect, MODE, MIN_MODE, CHILD_ERRORS, CUR_ERROR, LAST_CHILD_SCOPE, NO_PYFRAME, UP, ROOT,
                       AUTO, FILL, GlomError, ScopeVars, TargetRegistry, _t_eval, _has_callable_glomit, _glom, _DEFAULT_SCOPE, _MISSING, GLOM_DEBUG,
                       _ArgValuator, chain_child, arg_val, SKIP, STOP, PathAccessError)


def glom_inner_ref(target, spec, scope):
    """one evaluation step: a child scope (T, Spec, UP, fresh CHILD_ERRORS, the parent's MODE / MIN_MODE) is linked as the parent's
    LAST_CHILD_SCOPE; dispatch: a T expression first, then objects with a callable glomit (classes excluded), otherwise the
    minimum mode or the mode in force; T / glomit objects reset MIN_MODE for what they evaluate.
    On failure: the child is appended to the parent's CHILD_ERRORS with CUR_ERROR set, the same is done for every ancestor that was
    re-wired into a chain (NO_PYFRAME), and the very same exception object propagates."""
    parent = scope
    pmap = parent.maps[0]
    child = parent.new_child({T: target, Spec: spec, UP: parent, CHILD_ERRORS: [], MODE: pmap[MODE], MIN_MODE: pmap[MIN_MODE]})
    pmap[LAST_CHILD_SCOPE] = child
    try:
        if type(spec) is TType:
            child[MIN_MODE] = None
            return _t_eval(target, spec, child)
        if _has_callable_glomit(spec):
            child[MIN_MODE] = None
            return spec.glomit(target, child)
        mode = child.maps[0][MIN_MODE] or child.maps[0][MODE]
        return mode(target, spec, child)
    except Exception as e:
        child.maps[1][CHILD_ERRORS].append(child)
        child.maps[0][CUR_ERROR] = e
        if NO_PYFRAME in child.maps[1]:
            ancestor = child[UP]
            while NO_PYFRAME in ancestor.maps[0]:
                ancestor.maps[1][CHILD_ERRORS].append(ancestor)
                ancestor.maps[0][CUR_ERROR] = e
                ancestor = ancestor[UP]
        raise


def has_callable_glomit_ref(obj):
    """spec protocol: an object (not a class) with a callable glomit attribute"""
    method = getattr(obj, 'glomit', None)
    return callable(method) and not isinstance(obj, type)


def chain_child_ref(scope):
    """the scope for the next step of a chain: the scope left behind by the previous step (so its bindings are visible), marked as
    re-wired, its stale failed branches forgiven -- and evaluated in the mode of the enclosing spec, not in a mode the previous
    step switched to for its own sub-tree"""
    if LAST_CHILD_SCOPE not in scope.maps[0]:
        return scope
    previous = scope[LAST_CHILD_SCOPE]
    previous.maps[0][NO_PYFRAME] = True
    del previous.maps[0][CHILD_ERRORS][:]
    previous.maps[0][MODE] = scope.maps[0][MODE]
    previous.maps[0][MIN_MODE] = scope.maps[0][MIN_MODE]
    return previous


def arg_val_ref(target, arg, scope):
    """argument position: the argument is evaluated with the argument mode as minimum mode (a fresh valuator per call);
    the previous minimum mode is restored afterwards"""
    saved = scope[MIN_MODE]
    scope[MIN_MODE] = _ArgValuator().mode
    out = scope[glom](target, arg, scope)
    scope[MIN_MODE] = saved
    return out


def fill_glomit_ref(self, target, scope):
    scope[MODE] = FILL
    return scope[glom](target, self.spec, scope)


def auto_glomit_ref(self, target, scope):
    scope[MODE] = AUTO
    return scope[glom](target, self.spec, scope)


def fill_mode_ref(target, spec, scope):
    """Fill mode: dict -> dict of recursed keys and values; list / tuple / set / frozenset -> same type, elements recursed in order;
    callables are called with the target; anything else is a literal"""
    recurse = lambda val: scope[glom](target, val, scope)
    if type(spec) is dict:
        return {recurse(key): recurse(val) for key, val in spec.items()}
    if type(spec) in (list, tuple, set, frozenset):
        result = [recurse(val) for val in spec]
        if type(spec) is list:
            return result
        return type(spec)(result)
    if callable(spec):
        return spec(target)
    return spec


def argmode_ref(self, target, spec, scope):
    """argument mode: lists and dicts are rebuilt with the same type, their rebuilt object being registered (by identity of the
    original) BEFORE its elements are evaluated, so that a container reached again from inside itself maps to the object under
    construction (cycles are reproduced); tuples / sets / frozensets are rebuilt with the same type; everything else that reaches
    the mode function (strings, numbers, callables, other objects) is kept as it is"""
    recur = lambda val: scope[glom](target, val, scope)
    result = spec
    if type(spec) in (list, dict):
        if id(spec) in self.cache:
            return self.cache[id(spec)]
        result = self.cache[id(spec)] = type(spec)()
        if type(spec) is dict:
            result.update({recur(key): recur(val) for key, val in spec.items()})
        else:
            result.extend([recur(val) for val in spec])
    if type(spec) in (tuple, set, frozenset):
        result = type(spec)([recur(val) for val in spec])
    return result


def pipe_via_ref(self, target, scope):
    """a Pipe evaluated with the reference chain_child (used by the native replay only)"""
    cur = target
    for step in self.steps:
        scope = chain_child_ref(scope)
        out = scope[glom](cur, step, scope)
        if out is STOP:
            break
        if out is not SKIP:
            cur = out
            if not isinstance(step, list):
                scope[Path] += [getattr(step, '__name__', step)]
    return cur


def glom_top_ref(target, spec, **kwargs):
    """glom(): a fresh scope per call (child of the default scope; the caller's mapping is only copied in); the result of the evaluation
    is returned as it is.  An error matching skip_exc (GlomError when only default is given; nothing when neither is given) is
    replaced by the default OBJECT ITSELF.  Any other Exception: with glom_debug the original object propagates; a GlomError leaves
    as a copy of itself (same class, same args) -- or as itself when it cannot be copied; anything else leaves as GlomError.wrap of it
    (a class below both its class and GlomError, same args) -- or as itself when that class cannot be built from its args.
    Exceptions that are not Exceptions (BaseException) propagate untouched."""
    default = kwargs.pop('default', None if 'skip_exc' in kwargs else _MISSING)
    skip_exc = kwargs.pop('skip_exc', () if default is _MISSING else GlomError)
    glom_debug = kwargs.pop('glom_debug', GLOM_DEBUG)
    scope = _DEFAULT_SCOPE.new_child({
        Path: kwargs.pop('path', []),
        Inspect: kwargs.pop('inspector', None),
        MODE: AUTO,
        MIN_MODE: None,
        CHILD_ERRORS: [],
        'globals': ScopeVars({}, {}),
    })
    scope[UP] = scope
    scope[ROOT] = scope
    scope[T] = target
    scope.update(kwargs.pop('scope', {}))
    if kwargs:
        raise TypeError('unexpected keyword args: %r' % sorted(kwargs.keys()))
    try:
        try:
            return _glom(target, spec, scope)
        except skip_exc:
            if default is _MISSING:
                raise
            return default
    except Exception as e:
        if glom_debug:
            raise
        if isinstance(e, GlomError):
            try:
                err = copy.copy(e)
                err.args = e.args      # "with the same args": re-creating the exception runs its __init__ again, which may transform them
            except Exception:
                err = e
            err._set_wrapped(e)
        else:
            err = GlomError.wrap(e)
        if not isinstance(err, GlomError):
            raise
        err._finalize(scope[LAST_CHILD_SCOPE])
        raise err


def wrap_ref(cls, exc):
    """GlomError.wrap: an instance of a dynamically created class deriving from the exception's class and GlomError (GlomError only
    once), built from the original args, remembering the original; the original itself if that class cannot be instantiated"""
    exc_type = type(exc)
    if issubclass(GlomError, exc_type):
        bases = (GlomError,)
    else:
        bases = (exc_type, GlomError)
    wrapper_type = type(f"GlomError.wrap({exc_type.__name__})", bases, {})
    try:
        wrapper = wrapper_type(*exc.args)
        wrapper._GlomError__wrapped = exc
        return wrapper
    except Exception:
        return exc


def tme_copy_ref(self):
    """TypeMatchError.__copy__: rebuilt from (actual, expected), which are args[2] and args[1]"""
    return TypeMatchError(self.args[2], self.args[1])


# ------------------------------------------------------------------------------------------------------------------ C07
def s_first_magic_ref(scope, key, _t):
    """the first step of an S / A expression looks the name up in the scope (inner frames shadow outer ones);
    an unbound name is a PathAccessError at position 0"""
    try:
        return scope[key]
    except KeyError as e:
        raise PathAccessError(e, Path(_t), 0)


def vars_glomit_ref(self, target, spec):
    """every evaluation of Vars yields a FRESH ScopeVars object (nothing is shared between calls or with the spec)"""
    return ScopeVars(self.base, self.defaults)


def scopevars_init_ref(self, base, defaults):
    """the variables live in a fresh dict copied from base, then updated with the defaults (neither argument is kept)"""
    self.__dict__ = dict(base)
    self.__dict__.update(defaults)


def let_glomit_ref(self, target, scope):
    """Let(**kw): evaluates every binding against the target and binds the names in the CURRENT frame; yields the target"""
    scope.update({k: scope[glom](target, v, scope) for k, v in self._binding.items()})
    return target


def spec_glom_ref(self, target, **kw):
    """Spec.glom(target, scope=...): the Spec's own scope and the per-call scope are merged into a NEW dict (neither is modified)"""
    merged = dict(self.scope)
    merged.update(kw.get('scope', {}))
    kw['scope'] = ChainMap(merged)
    glom_ = merged.get(glom, glom)
    return glom_(target, self.spec, **kw)


def regex_glomit_ref(self, target, scope):
    """Regex: the target must be str / bytes and match; named groups are bound in the CURRENT frame; yields the target"""
    if type(target) not in _RE_TYPES:
        raise MatchError("{0!r} not valid as a Regex target -- expected {1!r}", type(target), _RE_TYPES)
    match = self.match_func(target)
    if not match:
        raise MatchError("target did not match pattern {0!r}", self.pattern)
    scope.update(match.groupdict())
    return target
