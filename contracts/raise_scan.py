"""Mechanical scan of every `raise` statement in glom/*.py (C04: failures detected by glom itself are GlomError subtypes)."""
import ast, json, os

HERE = os.path.dirname(os.path.abspath(__file__))


def scan(repo):
    """-> list of (module, function qualname, raised class text or '<re-raise>'/'<variable>')"""
    out = []
    for m, tree in repo.tree.items():
        for fname, fi in repo.functions.items():
            if fi.module != m:
                continue
            for n in ast.walk(fi.node):
                if isinstance(n, ast.Raise):
                    if n.exc is None:
                        what = '<re-raise>'
                    elif isinstance(n.exc, ast.Call):
                        what = ast.unparse(n.exc.func)
                    elif isinstance(n.exc, ast.Name):
                        what = n.exc.id if n.exc.id[:1].isupper() else '<variable>'
                    else:
                        what = ast.unparse(n.exc)
                    out.append((m, fi.qual, what))
    return sorted(set(out))


def classify(facts, module, cls_text):
    """'glom' if the class is a GlomError subtype, 'builtin' otherwise"""
    canon = facts.canonical(module, cls_text.split('.')[-1])
    if canon and canon[0] == 'class' and canon[1] in facts.class_names and facts.issub(canon[1], 'core.GlomError'):
        return 'glom'
    if cls_text.startswith('self.') or cls_text in ('<re-raise>', '<variable>'):
        return 'other'
    return 'builtin'


def allowed():
    return {tuple(x) for x in json.load(open(os.path.join(HERE, 'raise_sites_allowed.json')))}


def items(repo):
    """NativeFacts items: one per raise site that constructs a non-GlomError class"""
    allow = allowed()
    res = []
    for m, fn, what in scan(repo):
        def thunk(facts, m=m, fn=fn, what=what):
            kind = classify(facts, m, what)
            return kind in ('glom', 'other') or (m, fn, what) in allow
        res.append(('%s.%s raises %s' % (m, fn, what), 'raise site constructs a GlomError subtype, re-raises, or is a recorded argument-validation / internal site', thunk))
    return res
