"""Mechanical scan of every `raise` statement in glom/*.py (C04: failures detected by glom itself are GlomError subtypes)."""
import ast, json, os

HERE = os.path.dirname(os.path.abspath(__file__))


def scan(repo):
    """-> list of (module, function qualname, raised class text or '<re-raise>'/'<variable>')"""
    out = []
    for m, tree in repo.tree.items():
        for fname, fi in repo.functions.items():
            if fi.module != m:
                continue
            for n in ast.walk(fi.node):
                if isinstance(n, ast.Raise):
                    if n.exc is None:
                        what = '<re-raise>'
                    elif isinstance(n.exc, ast.Call):
                        what = ast.unparse(n.exc.func)
                    elif isinstance(n.exc, ast.Name):
                        what = n.exc.id if n.exc.id[:1].isupper() else '<variable>'
                    else:
                        what = ast.unparse(n.exc)
                    out.append((m, fi.qual, what))
    return sorted(set(out))


def classify(facts, module, cls_text):
    """'glom' if the class is a GlomError subtype, 'builtin' otherwise"""
    canon = facts.canonical(module, cls_text.split('.')[-1])
    if canon and canon[0] == 'class' and canon[1] in facts.class_names and facts.issub(canon[1], 'core.GlomError'):
        return 'glom'
    if cls_text.startswith('self.') or cls_text in ('<re-raise>', '<variable>'):
        return 'other'
    return 'builtin'


def allowed():
    return {tuple(x) for x in json.load(open(os.path.join(HERE, 'raise_sites_allowed.json')))}


def items(repo):
    """NativeFacts items: one per raise site that constructs a non-GlomError class"""
    allow = allowed()
    res = []
    for m, fn, what in scan(repo):
        def thunk(facts, m=m, fn=fn, what=what):
            kind = classify(facts, m, what)
            return kind in ('glom', 'other') or (m, fn, what) in allow
        res.append(('%s.%s raises %s' % (m, fn, what), 'raise site constructs a GlomError subtype, re-raises, or is a recorded argument-validation / internal site', thunk))
    return res


# ---- except clauses: which exception classes each handler in glom/*.py intercepts (C04: where an exception can change class or be swallowed)
def _handler_classes(repo, module, node):
    """the class names a handler's type expression denotes, module-level tuple constants expanded (so hoisting a tuple into a constant with
    the same members is not a change); '<bare>' for `except:`, '<dynamic ...>' for anything computed"""
    if node is None:
        return ('<bare>',)
    if isinstance(node, ast.Tuple):
        out = []
        for e in node.elts:
            out += _handler_classes(repo, module, e)
        return tuple(sorted(set(out)))
    if isinstance(node, ast.Name):
        const = repo.module_assigns.get(module, {}).get(node.id)
        if isinstance(const, ast.Tuple):
            return _handler_classes(repo, module, const)
        return (node.id,)
    if isinstance(node, ast.Attribute):
        return (ast.unparse(node),)
    return ('<dynamic %s>' % ast.unparse(node),)


def except_sites(repo):
    """-> sorted list of (module, function qualname, ordinal of the handler within the function, classes tuple, 'reraises'|'handles')"""
    out = []
    for fname, fi in sorted(repo.functions.items()):
        k = 0
        for n in ast.walk(fi.node):
            if isinstance(n, ast.ExceptHandler):
                k += 1
                classes = _handler_classes(repo, fi.module, n.type)
                rer = any(isinstance(x, ast.Raise) for b in n.body for x in ast.walk(b))
                out.append((fi.module, fi.qual, k, ' | '.join(classes), 'raises' if rer else 'handles'))
    return out


def except_allowed():
    p = os.path.join(HERE, 'except_sites_allowed.json')
    return [tuple(x) for x in json.load(open(p))] if os.path.exists(p) else []


def except_items(repo):
    """NativeFacts items.  One per RECORDED handler: the function still has a handler intercepting exactly those classes (widening,
    narrowing or removing a recorded handler fails it -- that changes which errors leave glom() and as what).  A handler that is not
    recorded yields an undecided item (None): new code needs review / a contract, it is not by itself a violation."""
    from collections import Counter
    rec = Counter((m, fn, classes, kind) for m, fn, _k, classes, kind in except_allowed())
    found = Counter((m, fn, classes, kind) for m, fn, _k, classes, kind in except_sites(repo))
    res = []
    for key in sorted(rec):
        for i in range(rec[key]):
            m, fn, classes, kind = key
            res.append(('%s.%s except (%s) %s #%d' % (m, fn, classes, kind, i + 1),
                        'the recorded handler is still there and intercepts exactly the recorded exception classes',
                        (lambda facts, key=key, i=i: found[key] > i)))
    for key in sorted(found):
        for i in range(rec.get(key, 0), found[key]):
            m, fn, classes, kind = key
            res.append(('%s.%s except (%s) %s [unrecorded #%d]' % (m, fn, classes, kind, i + 1),
                        'a handler that is not in contracts/except_sites_allowed.json: review it and record it', (lambda facts: None)))
    return res
