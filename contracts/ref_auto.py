"""Reference semantics of auto-mode restructuring (C03), written from the property statement.
Pure Python in the verified subset; parsed by PyVC for the proofs and executed natively by the replay harness."""
try:
    assume
except NameError:
    def assume(cond):
        return None
from glom.core import (glom, T, S, A, SKIP, STOP, Path, Spec, TType, TargetRegistry, chain_child, arg_val, CoalesceError, _MISSING,
                       _t_eval, _handle_dict, _handle_list, _handle_tuple)


def tuple_ref(target, spec, scope):
    """a tuple / Pipe feeds each step's result to the next; SKIP omits the step, STOP ends the chain;
    step n+1 is evaluated in the scope left behind by step n"""
    cur = target
    for step in spec:
        scope = chain_child(scope)
        out = scope[glom](cur, step, scope)
        if out is STOP:
            break
        if out is not SKIP:
            cur = out
            if not isinstance(step, list):
                scope[Path] += [getattr(step, '__name__', step)]
    return cur


def dict_ref(target, spec, scope):
    """a dict of the same type, keys in spec order, each value evaluated once; SKIP omits the entry;
    a Spec / T key is evaluated (after its value)"""
    out = type(spec)()
    for key, sub in spec.items():
        value = scope[glom](target, sub, scope)
        if value is not SKIP:
            if type(key) is Spec or type(key) is TType:
                key = scope[glom](target, key, scope)
            out[key] = value
    return out


def list_ref(target, spec, scope):
    """maps spec[0] over the target's iteration, in order; SKIP omits, STOP ends"""
    sub = spec[0]
    iterate = scope[TargetRegistry].get_handler('iterate', target, path=scope[Path])
    try:
        items = iterate(target)
    except Exception as e:
        raise TypeError('failed to iterate on instance of type %r at %r (got %r)'
                        % (target.__class__.__name__, Path(*scope[Path]), e))
    out = []
    here = scope[Path]
    for index, item in enumerate(items):
        scope[Path] = here + [index]
        value = scope[glom](item, sub, scope)
        if value is STOP:
            break
        if value is not SKIP:
            out.append(value)
    return out


def coalesce_ref(self, target, scope):
    """first sub-spec whose result is neither skipped nor a skip_exc error wins, later ones are not evaluated;
    otherwise default (argument-evaluated), default_factory(), or CoalesceError carrying what was skipped, in order"""
    skipped = []
    for sub in self.subspecs:
        try:
            value = scope[glom](target, sub, scope)
            wanted = not self.skip_func(value)      # an error of the skip predicate counts like an error of the alternative
        except self.skip_exc as e:
            skipped.append(e)
            continue
        if wanted:
            break
        skipped.append(value)
    else:
        if self.default is not _MISSING:
            return arg_val(target, self.default, scope)
        if self.default_factory is not _MISSING:
            return self.default_factory()
        raise CoalesceError(self, skipped, scope[Path])
    return value


def pipe_ref(self, target, scope):
    return _handle_tuple(target, self.steps, scope)


def val_ref(self, target, scope):
    return self.value


def spec_ref(self, target, scope):
    scope.update(self.scope)
    return scope[glom](target, self.spec, scope)


def call_ref(self, target, scope):
    """func, args and kwargs are argument-evaluated against the target, in that order, then called"""
    func = arg_val(target, self.func, scope)
    args = arg_val(target, self.args, scope)
    kwargs = arg_val(target, self.kwargs, scope)
    return func(*args, **kwargs)


def ref_ref(self, target, scope):
    """a Ref with a sub-spec binds its name in the current scope and evaluates it; a bare Ref looks the name up"""
    key = (Ref, self.name)
    if self.subspec is _MISSING:
        sub = scope[key]
    else:
        sub = self.subspec
        scope[key] = sub
    return scope[glom](target, sub, scope)


def auto_ref(target, spec, scope):
    """dispatch order of auto mode: str path, dict, list, tuple, other strings, callables (called with the target)"""
    if type(spec) is str:
        return _t_eval(target, Path.from_text(spec).path_t, scope)
    if isinstance(spec, dict):
        return _handle_dict(target, spec, scope)
    if isinstance(spec, list):
        return _handle_list(target, spec, scope)
    if isinstance(spec, tuple):
        return _handle_tuple(target, spec, scope)
    if isinstance(spec, str):
        return _t_eval(target, Path.from_text(spec).path_t, scope)
    if callable(spec):
        return spec(target)
    raise TypeError('expected spec to be dict, list, tuple, callable, string,'
                    ' or other Spec-like type, not: %r' % (spec,))


def pipe_law_lhs(target, a, b, scope):
    return tuple_ref(target, (a, b), scope)


def pipe_law_rhs(target, a, b, scope):
    """glom(glom(t, a), b) with the scopes chained as a tuple chains them"""
    s1 = chain_child(scope)
    mid = s1[glom](target, a, s1)
    assume(mid is not SKIP and mid is not STOP)
    if not isinstance(a, list):
        s1[Path] += [getattr(a, '__name__', a)]
    s2 = chain_child(s1)
    out = s2[glom](mid, b, s2)
    assume(out is not SKIP and out is not STOP)
    if not isinstance(b, list):
        s2[Path] += [getattr(b, '__name__', b)]
    return out
