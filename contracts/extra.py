"""Contracts on constructors, registry construction, error rendering, Path.from_text, Invoke.glomit: claimed by several checks via common.shared()."""
from pyvc.verify import Post, Case, Equiv, NativeFacts
from contracts import common

PROPERTY = 'extra'
REF_MODULES = ['ref_extra', 'ref_core', 'ref_t']


def config(cfg):
    import z3
    from pyvc.engine import SV, sv_ref
    from pyvc import z as Z
    common.apply(cfg)
    cfg.opaque_globals['PATH_STAR'] = lambda st: SV('bool', z3.Bool('glob_PATH_STAR'))
    cfg.class_attr_models['core.Path._CACHE'] = lambda ex, st: [('ok', st, sv_ref(Z.const('PATH_CACHE'), 'dict'))]
    cfg.class_attr_models['core.Path._STAR_WARNED'] = lambda ex, st: [('ok', st, sv_ref(st.arr.get('cls:core.Path._STAR_WARNED', Z.const('cls0_core_Path__STAR_WARNED'))))]
    cfg.summaries['matching._precedence'] = 'precedence'
    cfg.summaries['mutation.Assign'] = 'new_assign'
    cfg.summaries['mutation.Delete'] = 'new_delete'
    cfg.field_types.update({'core.Invoke._cur_kwargs': 'dict', 'core.Invoke._args': 'seq', 'matching.Optional.key': 'ref', 'matching.Required.key': 'ref',
                            'core.PathAccessError.part_idx': 'int', 'core.Path.path_t': 'inst:core.TType', 'core.TType.__ops__': 'seq'})


def _nosum(*names):
    def f(cfg):
        for n in names:
            cfg.summaries.pop(n, None)
    return f


def contracts():
    cs = []
    cs.append(Equiv('core.Invoke.glomit', 'ref_extra.invoke_glomit_ref', args={'self': 'inst:core.Invoke', 'target': 'ref', 'scope': 'chainmap'},
                    loops={1: dict(vars=[('all_args', 'list'), ('all_kwargs', 'dict'), ('self', 'inst:core.Invoke'), ('recurse', 'ref')]),
                           2: dict(vars=[('self', 'inst:core.Invoke'), ('kwargs', 'ref')]),
                           3: dict(vars=[('recurse', 'ref')]),
                           4: dict(vars=[('self', 'inst:core.Invoke'), ('kwargs', 'ref'), ('recurse', 'ref')])}))
    cs.append(Equiv('matching._precedence', 'ref_extra.precedence_ref', args={'match': 'ref'},
                    loops={1: dict(vars=[])}))
    cs.append(Equiv('matching.Optional.__init__', 'ref_extra.optional_init_ref', args={'self': 'inst:matching.Optional', 'key': 'ref', 'default': 'ref'}))
    cs.append(Equiv('matching.Required.__init__', 'ref_extra.required_init_ref', args={'self': 'inst:matching.Required', 'key': 'ref'}))
    cs.append(Equiv('matching.Optional.glomit', 'ref_extra.optional_glomit_ref', args={'self': 'inst:matching.Optional', 'target': 'ref', 'scope': 'chainmap'}))
    cs.append(Equiv('core.PathAccessError.get_message', 'ref_extra.pae_get_message_ref', args={'self': 'inst:core.PathAccessError'},
                    config=lambda cfg: cfg.pure_ctors.add('core.Path')))
    cs.append(Equiv('core.GlomError.__str__', 'ref_extra.glomerror_str_ref', args={'self': 'inst:core.GlomError'}))
    cs.append(Equiv('core.GlomError._finalize', 'ref_extra.finalize_ref', args={'self': 'inst:core.GlomError', 'scope': 'ref'},
                    loops={1: dict(vars=[('limit', 'int')])}))
    PT = ['len(path.path_t.__ops__) % 2 == 1']
    for fn_, ref_ in (('mutation.Assign.__init__', 'ref_extra.assign_init_ref'), ('mutation.Delete.__init__', 'ref_extra.delete_init_ref')):
        extra = {'val': 'ref', 'missing': 'ref'} if 'Assign' in fn_ else {'ignore_missing': 'ref'}
        cls_ = 'inst:' + fn_.rsplit('.', 1)[0]
        cs.append(Equiv(fn_, ref_, label=fn_ + '[path]', args=dict({'self': cls_, 'path': 'inst:core.Path'}, **extra), requires=PT))
        cs.append(Equiv(fn_, ref_, label=fn_ + '[text]', args=dict({'self': cls_, 'path': 'str'}, **extra)))
        cs.append(Equiv(fn_, ref_, label=fn_ + '[T]', args=dict({'self': cls_, 'path': 'inst:core.TType'}, **extra), requires=['len(path.__ops__) % 2 == 1']))
        cs.append(Equiv(fn_, ref_, label=fn_ + '[other]', args=dict({'self': cls_, 'path': 'int'}, **extra), raise_only=True))
    cs.append(Equiv('mutation.assign', 'ref_extra.assign_func_ref', args={'obj': 'ref', 'path': 'ref', 'val': 'ref', 'missing': 'ref'}))
    cs.append(Equiv('mutation.delete', 'ref_extra.delete_func_ref', args={'obj': 'ref', 'path': 'ref', 'ignore_missing': 'ref'}))
    cs.append(Equiv('matching.Match.verify', 'ref_extra.match_verify_ref', args={'self': 'inst:matching.Match', 'target': 'ref'}))
    cs.append(Equiv('matching.Match.matches', 'ref_extra.match_matches_ref', args={'self': 'inst:matching.Match', 'target': 'ref'}))
    cs.append(Equiv('reduction.Fold.__init__', 'ref_extra.fold_init_ref', args={'self': 'inst:reduction.Fold', 'subspec': 'ref', 'init': 'ref', 'op': 'ref'}))
    cs.append(Equiv('core.TargetRegistry._register_fuzzy_type', 'ref_extra.register_fuzzy_type_ref',
                    args={'self': 'inst:core.TargetRegistry', 'op': 'ref', 'new_type': 'ref', '_type_tree': 'ref'},
                    config=lambda cfg: (cfg.summaries.update({'core.TargetRegistry._register_fuzzy_type': 'register_fuzzy'}),
                                        cfg.field_types.update({'core.TargetRegistry._op_type_tree': 'dict'})),
                    loops={1: dict(vars=[('self', 'inst:core.TargetRegistry'), ('op', 'ref'), ('new_type', 'ref'), ('_type_tree', 'ref'), ('registered', 'bool')],
                                   ref_vars=[('self', 'inst:core.TargetRegistry'), ('op', 'ref'), ('new_type', 'ref'), ('_type_tree', 'ref'), ('filed', 'bool')],
                                   locals=['sub_tree', 'below'])}))
    cs.append(Equiv('mutation._assign_autodiscover', 'ref_extra.assign_autodiscover_ref', args={'type_obj': 'ref'}))
    cs.append(Equiv('mutation._delete_autodiscover', 'ref_extra.delete_autodiscover_ref', args={'type_obj': 'ref'}))
    for name, kw in (('plain', 'kw:'), ('default', 'kw:default'), ('factory', 'kw:default_factory'), ('both', 'kw:default,default_factory'), ('skip', 'kw:skip'),
                     ('skip_exc', 'kw:skip_exc'), ('bogus', 'kw:bogus')):
        cs.append(Equiv('core.Coalesce.__init__', 'ref_extra.coalesce_init_ref', label='core.Coalesce.__init__[%s]' % name,
                        args={'self': 'inst:core.Coalesce', 'subspecs': 'seq', 'kwargs': kw}, raise_only=(name == 'bogus')))
    cs.append(Equiv('core.Call.__init__', 'ref_extra.call_init_ref', args={'self': 'inst:core.Call', 'func': 'ref', 'args': 'ref', 'kwargs': 'ref'}))
    cs.append(Equiv('matching.Switch.__init__', 'ref_extra.switch_init_ref', args={'self': 'inst:matching.Switch', 'cases': 'ref', 'default': 'ref'}))
    for name, kw in (('plain', 'kw:'), ('default', 'kw:default'), ('bogus', 'kw:bogus')):
        cs.append(Equiv('matching._Bool.__init__', 'ref_extra.bool_init_ref', label='matching._Bool.__init__[%s]' % name,
                        args={'self': 'inst:matching.And', 'children': 'seq', 'kw': kw}, raise_only=(name == 'bogus')))
    for name, kw in (('none', 'kw:'), ('kw', 'kw:k')):
        cs.append(Equiv('core.TType.__call__', 'ref_extra.ttype_call_ref', label='core.TType.__call__[%s]' % name,
                        args={'self': 'inst:core.TType', 'args': 'seq', 'kwargs': kw}, requires=['len(self.__ops__) >= 1', 'self.__ops__[0] is not A']))
    cs.append(Equiv('reduction.Merge.__init__', 'ref_extra.merge_init_ref', args={'self': 'inst:reduction.Merge', 'subspec': 'ref', 'init': 'ref', 'op': 'ref'},
                    config=lambda cfg: cfg.summaries.update({'reduction.Fold.__init__': 'fold_init'})))
    cs.append(Equiv('reduction.Flatten.__init__', 'ref_extra.flatten_init_ref', args={'self': 'inst:reduction.Flatten', 'subspec': 'ref', 'init': 'ref'},
                    config=lambda cfg: cfg.summaries.update({'reduction.Fold.__init__': 'fold_init'})))
    cs.append(Equiv('core.TargetRegistry.register_op', 'ref_extra.register_op_ref', args={'self': 'inst:core.TargetRegistry', 'op_name': 'ref', 'auto_func': 'ref', 'exact': 'ref'},
                    config=lambda cfg: (cfg.summaries.update({'core.TargetRegistry._register_fuzzy_type': 'register_fuzzy'}),
                                        cfg.field_types.update({'core.TargetRegistry._op_type_tree': 'dict', 'core.TargetRegistry._op_type_map': 'dict', 'core.TargetRegistry._op_auto_map': 'dict'})),
                    loops={1: dict(vars=[]), 2: dict(vars=[('type_map', 'ref'), ('auto_func', 'ref'), ('op_name', 'ref')], locals=['handler', 'e']),
                           3: dict(vars=[('self', 'inst:core.TargetRegistry'), ('op_name', 'ref'), ('type_tree', 'ref')])}))
    cs.append(Equiv('core.Path.from_text', 'ref_extra.from_text_ref', config=_nosum('core.Path.from_text'), args={'cls': 'class:core.Path', 'text': 'ref'},
                    loops={1: dict(vars=[])}))
    # the number of wildcard layers of a T expression counts the OPERATOR slots only (claimed by C14 and by C11: _apply_for_each relies on it)
    cs.append(Equiv('core.TType.__stars__', 'ref_t.stars_ref', config=_nosum('core.TType.__stars__'), args={'self': 'inst:core.TType'}))
    return cs


def ctor_contracts():
    """constructors (and tiny delegating methods) that only store their arguments: each field holds exactly the argument it is named after.
    Post contracts; claimed by the checks whose property evaluates those fields."""
    from pyvc.verify import Post, Case
    cs = []
    def stores(fn_, cls_, fields, args, extra_ensures=(), **kw):
        ens = ['self.%s is %s' % (f, a) for f, a in fields] + list(extra_ensures)
        cs.append(Post(fn_, cases=[Case('any', args=dict({'self': 'inst:' + cls_}, **args), ensures=ens, **kw)]))
    stores('core.Pipe.__init__', 'core.Pipe', [], {'steps': 'seq'}, ['same(self.steps, steps)'])
    stores('core.Val.__init__', 'core.Val', [('value', 'value')], {'value': 'ref'})
    stores('core.Auto.__init__', 'core.Auto', [('spec', 'spec')], {'spec': 'ref'})
    stores('core.Fill.__init__', 'core.Fill', [('spec', 'spec')], {'spec': 'ref'})
    stores('core.Ref.__init__', 'core.Ref', [('name', 'name'), ('subspec', 'subspec')], {'name': 'ref', 'subspec': 'ref'})
    stores('grouping.Group.__init__', 'grouping.Group', [('spec', 'spec')], {'spec': 'ref'})
    stores('matching.Match.__init__', 'matching.Match', [('spec', 'spec'), ('default', 'default')], {'spec': 'ref', 'default': 'ref'})
    stores('matching.Not.__init__', 'matching.Not', [('child', 'child')], {'child': 'ref'})
    stores('matching._MExpr.__init__', 'matching._MExpr', [('lhs', 'lhs'), ('rhs', 'rhs')], {'lhs': 'ref', 'op': 'str', 'rhs': 'ref'}, ['self.op == op'])
    stores('matching._MSubspec.__init__', 'matching._MSubspec', [('spec', 'spec')], {'spec': 'ref'})
    stores('core.CoalesceError.__init__', 'core.CoalesceError', [('coal_obj', 'coal_obj'), ('skipped', 'skipped'), ('path', 'path')],
           {'coal_obj': 'ref', 'skipped': 'ref', 'path': 'ref'})
    stores('core.PathAssignError.__init__', 'core.PathAssignError', [('exc', 'exc'), ('path', 'path'), ('dest_name', 'dest_name')],
           {'exc': 'ref', 'path': 'ref', 'dest_name': 'ref'})
    stores('matching.CheckError.__init__', 'matching.CheckError', [('msgs', 'msgs'), ('check_obj', 'check'), ('path', 'path')],
           {'msgs': 'ref', 'check': 'ref', 'path': 'ref'})
    cs.append(Post('core.Spec.__init__', cases=[
        Case('scope', args={'self': 'inst:core.Spec', 'spec': 'ref', 'scope': 'dict'}, requires=['scope'], ensures=['self.spec is spec', 'self.scope is scope']),
        Case('no-scope', args={'self': 'inst:core.Spec', 'spec': 'ref', 'scope': 'none'}, ghosts={'k': 'ref'}, ensures=['self.spec is spec', 'k not in as_dict(self.scope)'])]))
    cs.append(Post('grouping.Limit.__init__', cases=[
        Case('subspec', args={'self': 'inst:grouping.Limit', 'n': 'ref', 'subspec': 'ref'}, requires=['subspec is not _MISSING'],
             ensures=['self.n is n', 'self.subspec is subspec']),
        Case('default', args={'self': 'inst:grouping.Limit', 'n': 'ref', 'subspec': 'ref'}, requires=['subspec is _MISSING'],
             ensures=['self.n is n', 'len(as_list(self.subspec)) == 1', 'as_list(self.subspec)[0] is T'])]))
    cs.append(Post('core.Let.__init__', cases=[
        Case('some', args={'self': 'inst:core.Let', 'kw': 'kw:a'}, ensures=['self._binding is kw']),
        Case('none', args={'self': 'inst:core.Let', 'kw': 'kw:'}, ensures=['False'], raises={'TypeError': 'True'})]))
    cs.append(Post('core.Invoke.__init__', cases=[
        Case('callable', args={'self': 'inst:core.Invoke', 'func': 'ref'}, requires=['callable(func)'],
             ghosts={'k': 'ref'}, ensures=['self.func is func', 'len(self._args) == 0', 'k not in as_dict(self._cur_kwargs)'])]))
    cs.append(Post('streaming.Iter.__init__', cases=[
        Case('plain', args={'self': 'inst:streaming.Iter', 'subspec': 'ref', 'kwargs': 'kw:'},
             ensures=['self.subspec is subspec', 'len(as_list(self._iter_stack)) == 0', 'self.sentinel is STOP']),
        Case('stack', args={'self': 'inst:streaming.Iter', 'subspec': 'ref', 'kwargs': 'kw:_iter_stack,sentinel'},
             ensures=['self.subspec is subspec', "self._iter_stack is kw__iter_stack", "self.sentinel is kw_sentinel"]),
        Case('bogus', args={'self': 'inst:streaming.Iter', 'subspec': 'ref', 'kwargs': 'kw:bogus'}, ensures=['False'], raises={'TypeError': 'True'},
             may_raise=['BaseException'], raise_only=True)]))
    stores('core.UnregisteredTarget.__init__', 'core.UnregisteredTarget', [('op', 'op'), ('target_type', 'target_type'), ('type_map', 'type_map'), ('path', 'path')],
           {'op': 'ref', 'target_type': 'ref', 'type_map': 'ref', 'path': 'ref'},
           ['len(self.args) == 4', 'self.args[0] is op', 'self.args[1] is target_type', 'self.args[2] is type_map', 'self.args[3] is path'])
    stores('matching.TypeMatchError.__init__', 'matching.TypeMatchError', [], {'actual': 'ref', 'expected': 'ref'},
           ['len(self.args) == 3', "self.args[0] == 'expected type {0.__name__}, not {1.__name__}'", 'self.args[1] is expected', 'self.args[2] is actual'])
    stores('core.Vars.__init__', 'core.Vars', [('base', 'base'), ('defaults', 'kw')], {'base': 'dict', 'kw': 'kw:a'})
    cs.append(Post('core._ArgValuator.__init__', cases=[
        Case('any', args={'self': 'inst:core._ArgValuator'}, ghosts={'k': 'ref'}, ensures=['k not in self.cache'])]))
    return cs


def bounded_from_text(tier, seed):
    """Path.from_text against the statement of the string spelling: 'a.b.c' denotes exactly the segments text.split('.') -- empty segments
    included (leading / trailing / doubled dots, the empty string) -- with '*' / '**' segments (and only those) being the wildcard steps; the
    string spelling and the explicit Path(...) spelling of the same segments are equal, before and after the cache has seen the text.
    Bound: the catalogue below x 2 lookups each."""
    import glom.core as gc
    from glom import Path, T
    texts = ['a', 'a.b', 'a.b.c', '', '.', 'a.', '.a', 'a..b', '..', 'a.b.', ' a. b', '0', 'a.0.-1', '*', '**', 'a.*', 'a.*.b', '**.a', 'a.**.*', '*a', 'a*.b', '***', 'a.* .b',
             'x.X', 'x', 'X.a', 'a.x.0', 'é.ü', 'a b.c d']
    cases, failures = 0, []
    for text in texts:
        want = []
        for seg in text.split('.'):
            want += [('x', None)] if seg == '*' else [('X', None)] if seg == '**' else [('P', seg)]
        want = tuple(x for pair in want for x in pair)
        for attempt in (1, 2):
            cases += 1
            got = gc.Path.from_text(text).path_t.__ops__[1:]
            if got != want:
                failures.append({'key': 'from-text', 'input': {'text': text, 'lookup': attempt}, 'observed': repr(got), 'expected': repr(want), 'replay_code': None})
                break
    return {'name': 'Path.from_text vs text.split(".") with wildcard segments', 'label': 'bounded', 'cases': cases, 'bound': '%d texts x 2 lookups' % len(texts),
            'failures': failures}


def renderer_contracts():
    """message renderers of the error classes and three small helpers"""
    cs = []
    ft = lambda cfg: cfg.field_types.update({'core.CoalesceError.skipped': 'ref', 'matching.CheckError.msgs': 'ref'})
    cs.append(Equiv('core.CoalesceError.get_message', 'ref_extra.coalesce_get_message_ref', args={'self': 'inst:core.CoalesceError'}, config=ft,
                    loops={1: dict(vars=[('self', 'inst:core.CoalesceError')])}))
    cs.append(Equiv('core.UnregisteredTarget.get_message', 'ref_extra.unregistered_get_message_ref', args={'self': 'inst:core.UnregisteredTarget'},
                    loops={1: dict(vars=[])}))
    cs.append(Equiv('matching.CheckError.get_message', 'ref_extra.check_get_message_ref', args={'self': 'inst:matching.CheckError'}, config=ft))
    cs.append(Equiv('core.PathAssignError.get_message', 'ref_extra.assign_get_message_ref', args={'self': 'inst:core.PathAssignError'}))
    cs.append(Equiv('mutation.PathDeleteError.get_message', 'ref_extra.delete_get_message_ref', args={'self': 'inst:mutation.PathDeleteError'}))
    cs.append(Equiv('core.GlomError._set_wrapped', 'ref_extra.set_wrapped_ref', args={'self': 'inst:core.GlomError', 'exc': 'ref'}))
    for name, tag in (('loose', 'bool'),):
        cs.append(Equiv('core._is_spec', 'ref_extra.is_spec_ref', args={'obj': 'ref', 'strict': 'bool'}))
    return cs


def bbrepr_facts():
    """NativeFacts about the shared repr helper (module initialisation state): every size / depth limit that reprlib applies is raised to 1024,
    so reprs of literals (long ints, deep or wide containers) are complete -- an eval-able repr (C18) and an untruncated trace value below
    the trace width (C05) both rest on it; plus the quote handling of bbrepr vs the {!r} conversion of bbformat"""
    def limits(f):
        import glom.core as gc, reprlib
        r = gc._BBRepr()
        names = [n for n, v in vars(reprlib.Repr()).items() if isinstance(v, int) and not isinstance(v, bool)]
        return all(getattr(r, n) == 1024 for n in names) and len(names) >= 8
    def probes(f):
        import glom.core as gc
        deep = [[[[[[[[1]]]]]]]]
        return (gc.bbrepr(2 ** 200) == repr(2 ** 200) and gc.bbrepr(deep) == repr(deep) and gc.bbrepr(list(range(300))) == repr(list(range(300)))
                and gc.bbrepr('it\'s a "key"') == repr('it\'s a "key"') and gc.bbrepr({'k' * 50: 'v' * 500}) == repr({'k' * 50: 'v' * 500}))
    return NativeFacts('bbrepr.complete', [
        ('limits', 'every integer limit of reprlib.Repr is 1024 on glom\'s repr helper', limits),
        ('probes', 'bbrepr equals repr on long ints, 8-deep lists, 300-element lists, strings with both quote kinds, long dict entries', probes),
    ], func='core._BBRepr.__init__ / bbrepr')


def bounded_path_composition(tier, seed):
    """Path(...) built from parts: strings / other objects become fuzzy 'P' segments, T expressions contribute their recorded steps unchanged,
    and a Path used as a part contributes ITS steps unchanged (attribute vs item vs fuzzy access kind preserved) -- so nesting Paths is
    associative.  Bound: all sequences of <= 3 parts from a catalogue of 9 parts, flat vs every nesting."""
    import itertools
    from glom import Path, T
    parts = [('s', 'a', ('P', 'a')), ('s', 'b.c', ('P', 'b.c')), ('s', 0, ('P', 0)), ('t', T.x, ('.', 'x')), ('t', T['k'], ('[', 'k')), ('t', T[1], ('[', 1)),
             ('t', T.x['k'], ('.', 'x', '[', 'k')), ('t', T.__star__(), ('x', None)), ('s', None, ('P', None))]
    cases, failures = 0, []
    for n in (1, 2, 3):
        for combo in itertools.product(parts, repeat=n):
            want = tuple(x for _k, _v, ops in combo for x in ops)
            vals = [v for _k, v, _o in combo]
            variants = [('flat', lambda: Path(*vals))]
            if n >= 2:
                variants.append(('nested-left', lambda: Path(Path(*vals[:-1]), vals[-1])))
                variants.append(('nested-right', lambda: Path(vals[0], Path(*vals[1:]))))
                variants.append(('all-nested', lambda: Path(*[Path(v) for v in vals])))
            for vname, mk in variants:
                cases += 1
                try:
                    got = mk().path_t.__ops__[1:]
                except Exception as e:
                    got = repr(e)
                if got != want:
                    if len(failures) < 3:
                        failures.append({'key': 'path-composition', 'input': {'parts': [repr(v) for v in vals], 'built': vname}, 'observed': repr(got)[:160],
                                         'expected': repr(want)[:160], 'replay_code': None})
    return {'name': 'Path built from parts (flat vs nested) keeps every step', 'label': 'bounded', 'cases': cases, 'bound': 'sequences of <= 3 of 9 parts x 4 nestings',
            'failures': failures}
