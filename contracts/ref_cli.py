"""Reference semantics of the command line interface (C19), written from the property statement."""
try:
    assume
except NameError:
    def assume(cond):
        return None
import ast, json, sys
from glom.cli import UsageError, isatty, _eval_python_full_spec, mw_handle_target, glom, Path, GlomError, Inspect, glom_cli, mw_get_target, get_command, PosArgSpec, Command
from boltons.iterutils import is_scalar


def glom_cli_ref(target, spec, indent, debug, inspect, scalar):
    """prints json.dumps(glom(target, spec), indent=indent or None, sort_keys=True) (the bare value under --scalar for scalars) and returns
    None (exit 0); a GlomError prints '<ClassName>: <message>' and returns 1"""
    if debug or inspect:
        stdin_open = not sys.stdin.closed
        spec = Inspect(spec, echo=inspect, recursive=inspect, breakpoint=inspect and stdin_open, post_mortem=debug and stdin_open)
    try:
        result = glom.glom(target, spec)
    except GlomError as ge:
        print(f'{ge.__class__.__name__}: {ge}')
        return 1
    if not indent:
        indent = None
    if scalar and is_scalar(result):
        print(result, end='')
    else:
        print(json.dumps(result, indent=indent, sort_keys=True))
    return None


def handle_target_ref(target_text, target_format):
    """empty text -> {}; the loader is chosen by format (json / yaml|yml / toml / python literal); an unknown format and ANY loader error are
    usage errors, never a result"""
    if not target_text:
        return {}
    if target_format == 'json':
        load_func = json.loads
    elif target_format in ('yaml', 'yml'):
        try:
            import yaml
            load_func = yaml.safe_load
        except ImportError:
            raise UsageError('No YAML package found. To process yaml files, run: pip install PyYAML')
    elif target_format == 'toml':
        missing = UsageError('No TOML package found. To process toml files, upgrade to Python 3.11 or run: pip install tomli')
        try:
            import tomllib
            load_func = tomllib.loads
        except ImportError:
            try:
                import tomli
                load_func = tomli.loads
            except ImportError:
                raise missing
    elif target_format == 'python':
        load_func = ast.literal_eval
    else:
        raise UsageError('expected target-format to be one of python, json, toml, or yaml')
    try:
        return load_func(target_text)
    except Exception as e:
        raise UsageError('could not load target data, got: %s: %s' % (e.__class__.__name__, e))


def get_target_ref(next_, posargs_, target_file, target_format, spec_file, spec_format):
    """spec: from argv or file (both -> usage error); none -> Path(); format python -> ast.literal_eval of the text (quoted with repr first
    when it does not start with a literal opener), json -> json.loads, python-full -> the ONLY branch that executes the text; anything else
    is a usage error.  target: from argv, '-'/stdin, file (both -> usage error; unreadable -> usage error), or non-tty stdin."""
    spec_text, target_text = None, None
    if len(posargs_) == 2:
        spec_text, target_text = posargs_
    elif len(posargs_) == 1:
        spec_text, target_text = posargs_[0], None
    if spec_text and spec_file:
        raise UsageError('expected spec file or spec argument, not both')
    elif spec_file:
        try:
            with open(spec_file) as f:
                spec_text = f.read()
        except OSError as ose:
            raise UsageError(f'could not read spec file {spec_file!r}, got: {ose}')
    if not spec_text:
        spec = Path()
    elif spec_format == 'python':
        if spec_text[0] not in ('"', "'", "[", "{", "("):
            spec_text = repr(spec_text)
        spec = ast.literal_eval(spec_text)
    elif spec_format == 'json':
        spec = json.loads(spec_text)
    elif spec_format == 'python-full':
        spec = _eval_python_full_spec(spec_text)
    else:
        raise UsageError('expected spec-format to be one of json, python, or python-full')
    if target_text and target_file:
        raise UsageError('expected target file or target argument, not both')
    elif target_text == '-' or target_file == '-':
        target_text = sys.stdin.read()
    elif target_file:
        try:
            target_text = open(target_file).read()
        except OSError as ose:
            raise UsageError(f'could not read target file {target_file!r}, got: {ose}')
    elif not target_text and not isatty(sys.stdin):
        target_text = sys.stdin.read()
    target = mw_handle_target(target_text, target_format)
    return next_(spec=spec, target=target)


def get_command_ref():
    """the command line: up to two positional arguments, and flags whose values reach the middleware exactly as typed (formats are plain
    strings compared literally by mw_get_target; the default spec format is 'python', the default target format 'json')"""
    posargs = PosArgSpec(str, max_count=2, display={'label': '[spec [target]]'})
    cmd = Command(glom_cli, posargs=posargs, middlewares=[mw_get_target])
    cmd.add('--target-file', str, missing=None, doc='path to target data source')
    cmd.add('--target-format', str, missing='json', doc='format of the source data (json or python)')
    cmd.add('--spec-file', str, missing=None, doc='path to glom spec definition')
    cmd.add('--spec-format', str, missing='python', doc='format of the glom spec definition (json, python, python-full)')
    cmd.add('--indent', int, missing=2, doc='number of spaces to indent the result, 0 to disable pretty-printing')
    cmd.add('--scalar', parse_as=True, doc="if the result is a single value (not a collection), output it"
            " without quotes or whitespace, for easier usage in scripts")
    cmd.add('--debug', parse_as=True, doc='interactively debug any errors that come up')
    cmd.add('--inspect', parse_as=True, doc='interactively explore the data')
    return cmd


def main_ref(argv):
    cmd = get_command()
    return cmd.run(argv) or 0
