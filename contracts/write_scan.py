"""Mechanical scan of every heap write in glom/*.py (C06: non-mutating specs are pure; outcome independent of history).
A write site is a store through an attribute or a subscript, a `del` of one, an augmented assignment to one, or a call of a
mutating container method.  Each site is classified; sites that can reach state outliving one evaluation (module / class / spec-object /
argument state) must be in the recorded table contracts/write_sites_allowed.json -- a new one fails the scan."""
import ast, json, os

HERE = os.path.dirname(os.path.abspath(__file__))
MUTATORS = {'append', 'extend', 'insert', 'update', 'pop', 'clear', 'setdefault', 'add', 'discard', 'remove', 'sort', 'reverse', 'popitem', 'appendleft'}


def _root(expr):
    while isinstance(expr, (ast.Attribute, ast.Subscript, ast.Call)):
        expr = expr.value if not isinstance(expr, ast.Call) else expr.func
    return expr.id if isinstance(expr, ast.Name) else None


def _fresh_locals(fnode):
    """names bound (only) to objects allocated in this function: literals, comprehensions, constructor-style calls"""
    fresh, other = set(), set()
    for n in ast.walk(fnode):
        if isinstance(n, ast.Assign):
            for t in n.targets:
                if isinstance(t, ast.Name):
                    v = n.value
                    ok = isinstance(v, (ast.List, ast.Dict, ast.Set, ast.ListComp, ast.DictComp, ast.SetComp, ast.Tuple)) or \
                        (isinstance(v, ast.Call) and isinstance(v.func, ast.Name) and (v.func.id[:1].isupper() or v.func.id in ('dict', 'list', 'set', 'type', 'OrderedDict', 'ChainMap')))
                    (fresh if ok else other).add(t.id)
    return fresh - other


def scan(repo):
    out = []
    for fname, fi in repo.functions.items():
        fresh = _fresh_locals(fi.node)
        params = [a.arg for a in fi.node.args.args]
        is_init = fi.qual.endswith('.__init__')
        for n in ast.walk(fi.node):
            sites = []
            if isinstance(n, (ast.Assign, ast.AugAssign, ast.Delete)):
                targets = n.targets if not isinstance(n, ast.AugAssign) else [n.target]
                for t in targets:
                    for tt in (t.elts if isinstance(t, (ast.Tuple, ast.List)) else [t]):
                        if isinstance(tt, (ast.Attribute, ast.Subscript)):
                            sites.append(('store' if not isinstance(n, ast.Delete) else 'del', tt))
            elif isinstance(n, ast.Call) and isinstance(n.func, ast.Attribute) and n.func.attr in MUTATORS:
                sites.append(('call.' + n.func.attr, n.func.value))
            for kind, tgt in sites:
                root = _root(tgt)
                text = ast.unparse(tgt)
                if root in fresh:
                    cls = 'fresh-local'
                elif root == 'self' and is_init:
                    cls = 'self-in-init'
                elif root in ('scope', 'pmap', 'cur_scope', 'nxt_in_chain', 'tree', 'acc', 'avg_acc') or text.startswith('scope'):
                    cls = 'scope-frame-or-accumulator'
                else:
                    cls = 'other'
                out.append((fi.module, fi.qual, kind, text, cls))
    # module-level state
    for m, tree in repo.tree.items():
        for node in tree.body:
            if isinstance(node, ast.Assign):
                for t in node.targets:
                    if isinstance(t, (ast.Attribute, ast.Subscript)):
                        out.append((m, '<module>', 'store', ast.unparse(t), 'module-init'))
    return sorted(set(out))


def allowed():
    return {tuple(x) for x in json.load(open(os.path.join(HERE, 'write_sites_allowed.json')))}


def items(repo):
    allow = allowed()
    res = []
    for site in scan(repo):
        m, fn, kind, text, cls = site
        def thunk(facts, site=site, cls=cls):
            return cls in ('fresh-local', 'self-in-init') or site in allow
        res.append(('%s.%s %s %s' % (m, fn, kind, text), 'write site is a fresh local / constructor field, or a recorded and reviewed site (%s)' % cls, thunk))
    # module-level mutable globals: a new one (e.g. a shared cache) changes this list
    return res


def module_globals(repo):
    """names assigned at module level to mutable containers / instances (candidates for cross-call state)"""
    out = []
    for m, tree in repo.tree.items():
        for node in tree.body:
            if isinstance(node, ast.Assign) and len(node.targets) == 1 and isinstance(node.targets[0], ast.Name):
                v = node.value
                if isinstance(v, (ast.Dict, ast.List, ast.Set, ast.DictComp, ast.ListComp)) or (isinstance(v, ast.Call) and isinstance(v.func, ast.Name) and v.func.id[:1].isupper() or
                                                                                                 (isinstance(v, ast.Call) and isinstance(v.func, ast.Name) and v.func.id in ('dict', 'list', 'set', 'ChainMap'))):
                    out.append((m, node.targets[0].id))
    return sorted(set(out))
