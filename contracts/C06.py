"""C06 — non-mutating specs are pure: inputs untouched, outcome independent of history."""
import json, os
from pyvc.verify import Post, Case, Equiv, NativeFacts
from contracts import common, C03, C04, C07, C08, C13, C15, C16, C17, write_scan

PROPERTY = 'C06'
REF_MODULES = ['ref_core', 'ref_auto', 'ref_t', 'ref_match', 'ref_reduce', 'ref_registry', 'ref_stream', 'h_path', 'ref_extra', 'h_ops']
HERE = os.path.dirname(os.path.abspath(__file__))


def config(cfg):
    C07.config(cfg)
    C13.config(cfg)
    C15.config(cfg)
    C17.config(cfg)
    cfg.kwdict_copy_as_dict = False


def _cfg_of(mod):
    def f(cfg):
        cfg.summaries.clear(); cfg.pure_models.clear(); cfg.field_types.clear(); cfg.scope_key_types.clear(); cfg.summary_result_tags.clear()
        cfg.pure_ctors.clear(); cfg.inline_star_ctors.clear(); cfg.opaque_globals.clear(); cfg.kwdict_copy_as_dict = False
        mod.config(cfg)
    return f


def _with(mod, labels):
    """contracts shared with another check, verified under that check's own configuration"""
    out = []
    for c in mod.contracts():
        if c.label in labels:
            inner = c.kw.get('config')
            base = _cfg_of(mod)
            def both(cfg, inner=inner, base=base):
                base(cfg)
                if inner:
                    inner(cfg)
            c.kw = dict(c.kw, config=both)
            out.append(c)
    return out


def contracts():
    cs = []

    class _Writes(NativeFacts):
        def run(self, v):
            self.items = write_scan.items(v.repo)
            allowed = {tuple(x) for x in json.load(open(os.path.join(HERE, 'module_globals_allowed.json')))}
            found = write_scan.module_globals(v.repo)
            self.items.append(('module-level mutable state', 'module-level containers / instances are the recorded ones (a new shared cache or registry fails this): %r' % (found,),
                               lambda f, found=found, allowed=allowed: set(found) <= allowed))
            NativeFacts.run(self, v)
    cs.append(_Writes('C06.frame.writers', [], func='every heap write in glom/*.py'))
    # per-call state is allocated per evaluation; builders are copy-on-write (shared contracts, each verified under its own check's configuration)
    cs += _with(C04, ('core.glom[none]', 'core.glom[scope]'))
    cs += _with(C08, ('core.arg_val', 'core._glom', 'core._ArgValuator.mode'))
    cs += _with(C07, ('core.Spec.glom[scope]', 'core.Spec.glom[plain]', 'core.Vars.glomit', 'core.ScopeVars.__init__'))
    cs += _with(C03, ('core._handle_dict', 'core._handle_list', 'core.Spec.glomit'))
    cs += _with(C13, ('core.TargetRegistry.get_handler', 'core.TargetRegistry.register[get]', 'core.TargetRegistry.register[get+exact]'))
    cs += _with(C15, ('reduction.Fold._fold', 'reduction.Merge._fold', 'reduction.Fold.glomit[Fold]'))
    cs += _with(C16, ('grouping.Group.glomit',))
    cs += _with(C17, ('streaming.Iter._add_op', 'core.Invoke.specs', 'core.Invoke.constants', 'core.Invoke.star'))
    from contracts import extra
    cs += common.shared(extra, ['core.Path.from_text'])
    # aggregation steps never adopt a caller-owned object as their accumulator (C16), wrapper classes are built per call (C04)
    pass
    cs += _with(C16, ('reduction.Fold._agg', 'reduction.Merge._agg', 'LEMMA C16.agg'))
    cs += _with(C04, ('core.GlomError.wrap',))
    return cs


def bounded_history(tier, seed):
    """outcome of every call of a pool, after a history of other calls (repeats of the same spec object, >10000 distinct path strings, PATH_STAR
    toggles, registrations between calls), equals the outcome of the same call made first in a FRESH interpreter; inputs are untouched."""
    import subprocess, sys, json as _json, random, textwrap
    pool = textwrap.dedent('''
        import copy, json
        from glom import *
        import glom as G_
        from glom.grouping import Group
        from collections import OrderedDict
        TARGETS = [{'a': {'b': [1, 2, {'c': 3}]}, 'd': None}, [{'k': 1, 'v': 'x'}, {'k': 2, 'v': 'y'}, {'k': 1, 'v': 'z'}], {'a': 1, 'xs': [3, 1, 2]}]
        SPECS = [
            'a.b.2.c', 'a.*', ('a.b', [T]), {'x': 'a.b.0', 'y': Coalesce('zz', 'd', default=7)}, Coalesce('a.zz', default=[T['a'], {'k': T['d']}]),
            (T['xs'], Iter().map(T * 2).filter(M > 2).all()), Group({T['k']: [T['v']]}), (T['xs'], Sum()), Match({'a': int, str: object}), ('xs', [(M > 1) | Val(SKIP)]),
            (S(v=T['a']), {'v': S['v']}), Call(sorted, args=[T['xs']], kwargs={'reverse': True}), Invoke(len).specs(T['xs']), Fill({'f': T['a']}), ('xs', Flatten(init=tuple)) ,
            (Vars(n=0), A.globals.cnt, S.globals.cnt), Ref('r', ('a', Coalesce(T['b'], T))), Or('zz', 'a'), Path('a', 'b', 1), T['a']['b'][1:],
        ]
        def outcome(ti, si):
            t = copy.deepcopy(TARGETS[ti]); before = copy.deepcopy(t)
            try:
                r = G_.glom(t, SPECS[si])
                if hasattr(r, '__next__'): r = list(r)
                out = ('ok', repr(r))
            except Exception as e:
                out = ('err', type(e).__name__)
            return out + (t == before,)
    ''')
    n_t, n_s = 3, 20
    fresh = subprocess.run([sys.executable, '-c', pool + "\nprint(json.dumps([[outcome(t, s) for s in range(%d)] for t in range(%d)]))" % (n_s, n_t)],
                           capture_output=True, text=True, env=dict(os.environ), timeout=120)
    if fresh.returncode != 0 or not fresh.stdout.strip():
        return {'name': 'history independence', 'bound': 'crashed', 'cases': 0, 'label': 'bounded',
                'failures': [{'key': 'history', 'input': 'fresh-interpreter script', 'observed': fresh.stderr[-400:], 'expected': 'runs', 'replay_code': None}]}
    base = _json.loads(fresh.stdout.strip().splitlines()[-1])
    rnd = random.Random(seed)
    ncalls = 400 if tier == 'thorough' else 150
    hist = [(rnd.randrange(n_t), rnd.randrange(n_s)) for _ in range(ncalls)]
    script = pool + textwrap.dedent('''
        import glom.core as gc
        hist = %r
        res = []
        class Reg: pass
        for i, (t, s) in enumerate(hist):
            if i == 20:
                for k in range(10050):            # overflow the path cache
                    try: G_.glom({}, 'p%%d.q' %% k)
                    except G_.GlomError: pass
            if i == 40: gc.PATH_STAR = False
            if i == 45: gc.PATH_STAR = True
            if i == 60: G_.register(Reg, get=lambda o, k: 1)
            res.append(outcome(t, s))
        print(json.dumps(res))
    ''') % (hist,)
    run = subprocess.run([sys.executable, '-W', 'ignore', '-c', script], capture_output=True, text=True, env=dict(os.environ), timeout=280)
    if run.returncode != 0:
        return {'name': 'history independence', 'bound': 'crashed', 'cases': 0, 'label': 'bounded',
                'failures': [{'key': 'history', 'input': 'history script', 'observed': run.stderr[-300:], 'expected': 'runs', 'replay_code': None}]}
    got = _json.loads(run.stdout.strip().splitlines()[-1])
    failures = []
    for i, ((t, s), g) in enumerate(zip(hist, got)):
        if g != base[t][s]:
            failures.append({'key': 'history', 'input': {'call': i, 'target': t, 'spec': s}, 'observed': repr(g)[:200], 'expected': repr(base[t][s])[:200], 'replay_code': None})
            break
    untouched = all(x[2] for row in base for x in row)
    if not untouched:
        failures.append({'key': 'input-mutated', 'input': 'fresh run', 'observed': 'a target changed', 'expected': 'targets untouched', 'replay_code': None})
    return {'name': 'history independence (fresh interpreter vs after a history incl. cache overflow, PATH_STAR toggles, a registration)', 'bound': '%d calls from a 3 x 20 pool' % ncalls,
            'cases': ncalls + n_t * n_s, 'failures': failures, 'label': 'bounded'}


BOUNDED = [bounded_history]
ASSUMPTIONS = [
    'user callables are pure (hypothesis of the property); isinstance(obj, C) is a function of type(obj)',
    'the frame argument: every heap write in the package is enumerated mechanically (contracts/write_scan.py); writes are either to objects allocated in the same function / constructor '
    'fields, or recorded and reviewed sites (scope frames and accumulator trees of the running evaluation, the path cache, the registry tables and memo, error-object memo fields, the documented '
    'mutators); a new write site or a new module-level container fails the obligation',
    'Path.from_text cache invariant (every cached Path has the ops of its key) is NOT proved symbolically (str.split is outside the subset): cache warming / overflow / PATH_STAR toggles are covered '
    'by the labelled bounded history check',
]
TRUSTED = ['the shared reference semantics', 'the recorded write-site and module-global tables (reviewed by hand when recorded)']
EXPLANATION = ('C06.frame.writers (mechanical write-set scan over the whole package + module-level state list) and the per-call-state contracts shared with C03/C04/C07/C08/C13/C15/C16/C17: fresh scope and globals '
               'per glom() call, caller mapping only read, fresh argument valuator per arg_val, fresh ScopeVars, fresh accumulator tree per Group evaluation, init() per fold, builders copy-on-write, registry memo reset.')
CANARIES = [
    {'name': 'memo on a spec object', 'module': 'core', 'only': ['C06.frame.writers'], 'expect': ['C06.frame.writers'],
     'old': "    def glomit(self, target, scope):\n        skipped = []", 'new': "    def glomit(self, target, scope):\n        self._last_target = target\n        skipped = []"},
    {'name': 'shared argument valuator', 'module': 'core', 'only': ['core.arg_val', 'C06.frame.writers'], 'expect': ['core.arg_val', 'C06.frame.writers'],
     'old': "    scope[MIN_MODE] = _ArgValuator().mode", 'new': "    scope[MIN_MODE] = _SHARED_VALUATOR.mode"},
]
