"""C05 — error messages carry a faithful target-spec trace down to the failing spec."""
from pyvc.verify import Post, Case, Equiv, NativeFacts
from contracts import common, C08

PROPERTY = 'C05'
REF_MODULES = ['ref_err', 'ref_core', 'ref_extra', 'ref_auto', 'ref_match', 'ref_reduce']


def config(cfg):
    import z3
    from pyvc.engine import SV
    common.apply(cfg)
    cfg.summaries['core._unpack_stack'] = 'unpack_stack'
    cfg.summaries['core._format_trace_value'] = 'format_trace_value'
    cfg.summaries['core._ArgValuator'] = 'new_argvaluator'
    cfg.scope_key_types.update({'CLS_core_Spec': 'ref', 'CUR_ERROR': 'ref'})
    cfg.opaque_globals['TRACE_WIDTH'] = lambda st: SV('int', z3.Int('glob_TRACE_WIDTH'))


def _nosum(*names):
    def f(cfg):
        for n in names:
            cfg.summaries.pop(n, None)
    return f


def contracts():
    cs = []
    cs += [c for c in C08.contracts() if c.label in ('core._glom', 'core.chain_child')]      # breadcrumbs: LAST_CHILD_SCOPE / CHILD_ERRORS / CUR_ERROR / NO_PYFRAME
    cs.append(Equiv('core._unpack_stack', 'ref_err.unpack_stack_ref', config=_nosum('core._unpack_stack'), args={'scope': 'chainmap', 'only_errors': 'bool'},
                    loops={1: dict(vars=[('stack', 'list'), ('scope', 'dict')], ref_vars=[('stack', 'list'), ('frame', 'dict')], locals=['child', 'branches']),
                           2: dict(vars=[], ref_vars=[]),
                           3: dict(vars=[('stack', 'list')], ref_vars=[('stack', 'list')], locals=['cur', 'nxt', 'upper', 'lower']),
                           4: dict(vars=[('stack', 'list')], ref_vars=[('stack', 'list')])}))
    cs.append(Equiv('core._format_trace_value', 'ref_err.format_trace_value_ref', config=_nosum('core._format_trace_value'), args={'value': 'ref', 'maxlen': 'int'}))
    cs.append(Equiv('core.format_target_spec_trace', 'ref_err.format_trace_ref', config=_nosum('core.format_target_spec_trace'),
                    args={'scope': 'chainmap', 'root_error': 'ref', 'width': 'int', 'depth': 'int', 'prev_target': 'ref', 'last_branch': 'bool'},
                    cases=[('top', ['depth == 0']), ('nested', ['depth > 0'])],
                    loops={1: dict(vars=[('segments', 'list'), ('prev_target', 'ref'), ('fmt_t', 'ref'), ('fmt_s', 'ref'), ('fmt_b', 'ref'), ('fmt_e', 'ref'), ('recurse', 'ref'),
                                         ('root_error', 'ref'), ('last_branch', 'bool'), ('last_line_error', 'bool')],
                                   locals=['scope', 'spec', 'target', 'error', 'branches']),
                           2: dict(vars=[('recurse', 'ref')])}))
    from contracts import extra
    cs += common.shared(extra, ['core.GlomError.__str__', 'core.GlomError._finalize', 'core.PathAccessError.get_message'])
    # "lists the spec at every level of nesting": every composite spec hands its sub-specs to the evaluator (one child scope per level) --
    # the handler contracts of C03 say which recursive evaluations happen
    from contracts import C03
    cs += common.shared(C03, ['core.Spec.glomit', 'core._handle_tuple', 'core._handle_dict', 'core._handle_list', 'core.Coalesce.glomit', 'core.Pipe.glomit',
                              'core.Call.glomit', 'core.Ref.glomit', 'core.AUTO'])
    # the message of the original error: the renderers of the glom error classes (what the last line of the trace says)
    from contracts import X_ctor
    cs += common.shared(X_ctor, ['core.CoalesceError.get_message', 'core.UnregisteredTarget.get_message', 'matching.CheckError.get_message',
                                 'core.PathAssignError.get_message', 'mutation.PathDeleteError.get_message', 'core.CoalesceError.__init__',
                                 'core.PathAssignError.__init__', 'matching.CheckError.__init__'])
    # branching specs: which branches are attempted and under which scope (contracts of C10), argument evaluation
    from contracts import C10
    cs += common.shared(C10, ['matching.Switch.glomit', 'matching.Or._glomit', 'matching.And._glomit', 'matching.Not.glomit', 'matching._Bool.glomit'])
    cs += common.shared(C08, ['core.arg_val', 'core._ArgValuator.mode'])
    cs += common.shared(C03, ['core._has_callable_glomit'])
    from contracts import extra as _ex
    cs.append(_ex.bbrepr_facts())
    return cs


from contracts import native as _n


def _trace_outcome(fn, spec_src, target_src):
    import glom
    env = dict(vars(glom))
    try:
        glom.glom(eval(target_src, dict(env)), eval(spec_src, dict(env)))
        return 'no error'
    except glom.GlomError as e:
        import re
        return re.sub(r' at 0x[0-9a-f]+', '', str(e))


_TR_SPECS = ["'a.b.zz'", "('a', 'b', 'zz')", "{'k': ('a', 'zz')}", "['zz']", "('a', {'k': [T['zz']]})", "Coalesce('zz', 'yy')", "(Coalesce('zz', 'a'), 'yy')",
             "Coalesce(('a', 'zz'), ('a', 'b', 'yy'))", "(float, 'x')" , "Coalesce('a.zz', 'b', skip=None)", "Match({'a': int, 'b': int})", "Or(M == 1, M == 2)",
             "Switch([(M == 1, 'x'), (M == 2, 'y')])", "('a', lambda t: 1 / 0)", "('a', Coalesce(T['zz'], T['yy']), 'never')", "{'x': Coalesce('zz', ('a', 'b', 'qq'))}",
             "('a', 'b', Check(type=str))", "(T['a'], T['b'], Coalesce(T['c'], T['d']))"]
_TR_TGTS = ["{'a': {'b': {'c': 1}}, 'b': None}", "1", "{'b': 1}", "{'a': {'b': 'x' * 300}}", "{'a': {'b': '\u00e9\u00e8'}}"]


def _mk_trace_replay():
    def find(name, model, count=None):
        import importlib, glom
        from contracts import ref_err
        real_fts, real_us = glom.core.format_target_spec_trace, glom.core._unpack_stack
        for t in _TR_TGTS:
            for sp in _TR_SPECS:
                if count is not None:
                    count[0] += 1
                a = _trace_outcome(None, sp, t)
                glom.core.format_target_spec_trace, glom.core._unpack_stack = ref_err.format_trace_ref, ref_err.unpack_stack_ref
                try:
                    b = _trace_outcome(None, sp, t)
                finally:
                    glom.core.format_target_spec_trace, glom.core._unpack_stack = real_fts, real_us
                if a != b:
                    code = ("import glom\nfrom contracts import ref_err\nfrom contracts.C05 import _trace_outcome\na = _trace_outcome(None, %r, %r)\n"
                            "glom.core.format_target_spec_trace, glom.core._unpack_stack = ref_err.format_trace_ref, ref_err.unpack_stack_ref\n"
                            "b = _trace_outcome(None, %r, %r)\nprint('real code:\\n' + a)\nprint('reference:\\n' + b)\nassert a == b\n" % (sp, t, sp, t))
                    return {'input': {'spec': sp, 'target': t}, 'observed': a[-400:], 'expected': b[-400:], 'replay_code': code}
        return None
    def run():
        n = [0]
        return n[0] or len(_TR_SPECS) * len(_TR_TGTS), find('(differential replay)', {}, n)
    find.run = run
    find.real_name, find.ref_name = 'core.format_target_spec_trace/_unpack_stack', 'ref_err.format_trace_ref/unpack_stack_ref'
    return find


NATIVE = {'core.format_target_spec_trace': _mk_trace_replay(), 'core._unpack_stack': _mk_trace_replay()}


def bounded_trace_shape(tier, seed):
    """the rendered message against the statement, on planted failures: begins with the root target, lists the spec of every level from the
    root spec to the innermost failing spec in order, shows the target the failing spec received, ends with the original error's type and
    message; all attempted branches appear; after an abandoned branch the trace follows the branch that raised.
    Bound: chains / nestings of depth <= 4 x every failure position, 3 target kinds."""
    import glom, re
    from glom import glom as G, T, Coalesce
    cases, failures = 0, []
    def lines(msg):
        out = []
        for ln in msg.splitlines():
            m = re.match(r'^[ |\\X]*[-|+] (Target|Spec): (.*)$', ln) or re.match(r'^[ |\\X]*[-|+\\X] (Target|Spec): (.*)$', ln)
            if m:
                out.append((m.group(1), m.group(2)))
        return out
    keys = ['a', 'b', 'c', 'd']
    for depth in range(1, 5):
        for fail_at in range(depth):
            for kind in ('tuple', 'dotted', 'nested-dict'):
                target = cur = {}
                for i in range(depth):
                    nxt = {} if i < depth - 1 else 'leaf'
                    if i != fail_at:
                        cur[keys[i]] = nxt
                    cur = nxt if isinstance(nxt, dict) else cur
                    if i == fail_at:
                        break
                steps = keys[:depth]
                if kind == 'tuple':
                    spec = tuple(steps)
                elif kind == 'dotted':
                    spec = '.'.join(steps)
                else:
                    spec = tuple(steps[:-1]) + ({'out': steps[-1]},) if depth > 1 else {'out': steps[0]}
                cases += 1
                try:
                    G(target, spec)
                    failures.append({'key': 'trace', 'input': repr(spec), 'observed': 'no error', 'expected': 'PathAccessError', 'replay_code': None}); continue
                except glom.PathAccessError as e:
                    msg = str(e)
                    ls = lines(msg)
                    ok = bool(ls) and ls[0][0] == 'Target' and ls[0][1].startswith('{')
                    ok = ok and ('Spec', glom.core.bbrepr(spec)) in ls and ls.index(('Spec', glom.core.bbrepr(spec))) == 1
                    last = msg.strip().splitlines()[-1]
                    ok = ok and 'PathAccessError' in last and repr(keys[fail_at]) in last
                    if kind == 'tuple':
                        # the failing step's spec is the last Spec line and is preceded by the target it received
                        ok = ok and ls[-1] == ('Spec', repr(keys[fail_at]))
                        if fail_at > 0:
                            ok = ok and ls[-2][0] == 'Target'
                    if not ok:
                        failures.append({'key': 'trace', 'input': {'spec': repr(spec), 'target': repr(target)}, 'observed': msg[-300:], 'expected': 'root target, root spec, ..., failing spec with its target, original error last', 'replay_code': None})
    # branches
    for t, spec, must, must_not in [
            ({'a': 1}, Coalesce('x', 'y'), ["'x'", "'y'", "KeyError('x')", "KeyError('y')"], []),
            ({'a': {'b': 1}}, (Coalesce('x', 'a'), 'zz'), ["'zz'"], ["KeyError('x')"]),
            ({'b': None}, Coalesce('a', 'b', skip=None), ["'a'", "KeyError('a')"], []),
            ({'a': 1}, ('a', Coalesce(T['p'], T['q'])), ["T['p']", "T['q']", "Target: 1"], [])]:
        cases += 1
        try:
            G(t, spec)
            failures.append({'key': 'trace-branch', 'input': repr(spec), 'observed': 'no error', 'expected': 'error', 'replay_code': None})
        except glom.GlomError as e:
            msg = str(e)
            if not all(m in msg for m in must) or any(m in msg for m in must_not):
                failures.append({'key': 'trace-branch', 'input': repr(spec), 'observed': msg[-400:], 'expected': 'contains %r, not %r' % (must, must_not), 'replay_code': None})
    # an error finalised by an inner glom() call inside a user callable and re-raised through the outer call -- with and without the
    # user code having looked at str(e) in between: the outer message begins with the OUTER root target and lists the outer levels
    def _inner(observe):
        def inner(t):
            try:
                return G(t, 'p.q')
            except glom.GlomError as e:
                if observe:
                    str(e)
                raise
        return inner
    for observe in (False, True):
        for outer_spec_of in (lambda f: ('x', f), lambda f: {'k': ('x', f)}, lambda f: ('x', Coalesce('nope', T['y']), f)):
            cases += 1
            f = _inner(observe)
            t, spec = {'x': {'p': {}, 'y': {'p': {}}}}, outer_spec_of(f)
            try:
                G(t, spec)
                failures.append({'key': 'trace-refinalized', 'input': repr(spec), 'observed': 'no error', 'expected': 'error', 'replay_code': None})
            except glom.GlomError as e:
                ls = lines(str(e))
                if not (ls and ls[0] == ('Target', glom.core.bbrepr(t)) and len(ls) > 1 and ls[1][0] == 'Spec' and ls[1][1][:8] == glom.core.bbrepr(spec)[:8]):
                    failures.append({'key': 'trace-refinalized', 'input': {'observe_str_before_reraise': observe, 'spec': repr(spec)}, 'observed': str(e)[:400],
                                     'expected': 'trace begins with the outer root target and root spec', 'replay_code': None})
    # "ends with the type and message of the original error": a multi-line message (blank lines, caret / tilde pointer lines) survives intact
    class ParseFailure(Exception):
        pass
    for text in ('bad expression in record:\n\n    total = price * (qty\n                    ^\nunbalanced parenthesis', 'two\nlines', '~~~\n^^^', 'x\n\n\ny'):
        def raiser(t, text=text):
            raise ParseFailure(text)
        for spec in (raiser, ('a', raiser), {'k': ('a', raiser)}, Coalesce(('a', raiser), skip_exc=KeyError)):
            cases += 1
            try:
                G({'a': {'b': 1}}, spec)
                failures.append({'key': 'trace-tail', 'input': repr(text), 'observed': 'no error', 'expected': 'ParseFailure', 'replay_code': None})
            except ParseFailure as e:
                if not str(e).endswith('ParseFailure: ' + text):
                    failures.append({'key': 'trace-tail', 'input': {'message': text, 'spec': repr(spec)[:80]}, 'observed': str(e)[-200:],
                                     'expected': 'the message ends with %r' % ('ParseFailure: ' + text), 'replay_code': None})
    # truncation and non-ASCII
    for t in ({'a': 'x' * 500}, {'a': '\u00e9' * 10}):
        cases += 1
        try:
            G(t, 'a.zz')
        except glom.GlomError as e:
            msg = str(e)
            width = glom.core.TRACE_WIDTH
            bad = [ln for ln in msg.splitlines() if re.match(r'^[ |]*[-|+] (Target|Spec): ', ln) and len(ln) > width]
            if bad:
                failures.append({'key': 'trace-width', 'input': repr(t)[:60], 'observed': 'line of %d chars' % len(bad[0]), 'expected': '<= %d' % width, 'replay_code': None})
    return {'name': 'rendered trace vs the statement on planted failures', 'bound': 'chains/nestings depth<=4 x every failure position x 3 shapes; 4 branch scenarios; 6 re-finalised (inner glom() error re-raised) scenarios; 16 multi-line original messages; truncation',
            'cases': cases, 'failures': failures, 'label': 'bounded'}


BOUNDED = [bounded_trace_shape]
ASSUMPTIONS = [
    'the breadcrumbs are written by _glom / chain_child (contracts proved here, shared with C08): LAST_CHILD_SCOPE on entry, CHILD_ERRORS / CUR_ERROR on failure, NO_PYFRAME re-wiring',
    'composition over arbitrary spec shapes (that the stack unpacked from the breadcrumbs is the list root spec ... failing spec) is NOT proved: it is covered by the labelled bounded stand-ins',
    'traceback.format_exception_only / bbrepr / terminal width are opaque library values',
]
TRUSTED = ['reference semantics contracts/ref_err.py']
EXPLANATION = ('_unpack_stack (linear descent, branch detection, error push-down, trimming), format_target_spec_trace (target line iff a different object, spec / branch lines, '
               'error lines, nesting marks) and _format_trace_value (truncation) are proved equal to reference semantics; _glom / chain_child breadcrumbs are shared contracts.')
CANARIES = [
    {'name': 'unpack_stack: single branch always linear', 'module': 'core', 'only': ['core._unpack_stack'], 'expect': ['core._unpack_stack'],
     'old': "        if branches == [child]:", 'new': "        if len(branches) == 1:"},
    {'name': 'trace: target line by equality', 'module': 'core', 'only': ['core.format_target_spec_trace'], 'expect': ['core.format_target_spec_trace'],
     'old': "        if target is not prev_target:", 'new': "        if target != prev_target:"},
]
