"""Reference semantics of Assign / Delete (C11, C12), written from the property statements."""
try:
    assume
except NameError:
    def assume(cond):
        return None
from glom.core import (glom, T, S, A, UP, Val, Path, TType, TargetRegistry, PathAccessError, PathAssignError, arg_val, GlomError, _assign_op)
from glom.mutation import PathDeleteError, Assign, Delete, _apply_for_each


def del_one_ref(self, dest, op, arg, scope):
    """exactly Python's `del` on the addressed key / index / attribute (or the registered delete handler for a path segment);
    a missing final element (KeyError / IndexError / AttributeError; anything from a handler) is a PathDeleteError, or nothing
    with ignore_missing"""
    if op == '[':
        try:
            del dest[arg]
        except (KeyError, IndexError) as e:
            if not self.ignore_missing:
                raise PathDeleteError(e, self.path, arg)
    elif op == '.':
        try:
            delattr(dest, arg)
        except AttributeError as e:
            if not self.ignore_missing:
                raise PathDeleteError(e, self.path, arg)
    elif op == 'P':
        handler = scope[TargetRegistry].get_handler('delete', dest)
        try:
            handler(dest, arg)
        except Exception as e:
            if not self.ignore_missing:
                raise PathDeleteError(e, self.path, arg)


def delete_ref(self, target, scope):
    """wildcard-free: fetch the parent of the addressed element (from the enclosing scope for S-rooted paths), delete the
    element there, return the very target; a missing parent is a PathAccessError, or nothing with ignore_missing"""
    if self.path.startswith(S):
        base = scope[UP]
        parent_path = self.path.from_t()
    else:
        base = target
        parent_path = self.path
    try:
        parent = scope[glom](base, parent_path, scope)
    except PathAccessError as pae:
        if not self.ignore_missing:
            raise
        return target
    op, arg = self.op, self.arg
    _apply_for_each(lambda dest: self._del_one(dest, op, arg, scope), self.path, parent)
    return target


def apply_for_each_ref(func, path, val):
    """with s > 0 wildcards in the path the fetched value is nested s levels deep: flatten s-1 levels and apply to every
    element in order; without wildcards apply once"""
    layers = path.path_t.__stars__()
    if layers == 0:
        func(val)
        return None
    for i in range(layers - 1):
        val = sum(val, [])
    for element in val:
        func(element)
    return None


def assign_op_ref(dest, op, arg, val, path, scope):
    """'[' -> item assignment, '.' -> attribute assignment, 'P' -> the registered assign handler (any error -> PathAssignError)"""
    if op == '[':
        dest[arg] = val
    elif op == '.':
        setattr(dest, arg, val)
    elif op == 'P':
        handler = scope[TargetRegistry].get_handler('assign', dest)
        try:
            handler(dest, arg, val)
        except Exception as e:
            raise PathAssignError(e, path, arg)
    else:
        raise ValueError('unsupported T operation for assignment')


def assign_ref(self, target, scope):
    """evaluate the value once (argument mode), fetch the parent of the addressed element, perform the store(s) through
    _assign_op at every match, return the very target.  With `missing` and an absent segment k: the tail is built first on a
    fresh object from the factory (innermost assignment first, the already evaluated value is NOT evaluated again), then attached
    by a single store at the break point"""
    val = arg_val(target, self.val, scope)
    if self.path.startswith(S):
        base = scope[UP]
        parent_path = self.path.from_t()
    else:
        base = target
        parent_path = self.path
    op, arg, path = self.op, self.arg, self.path
    try:
        dest = scope[glom](base, parent_path, scope)
    except PathAccessError as pae:
        if not self.missing:
            raise
        k = pae.part_idx
        tail_path = self._orig_path[k + 1:]
        val = scope[glom](self.missing(), Assign(tail_path, Val(val), missing=self.missing), scope)
        op, arg = self._orig_path.items()[k]
        path = self._orig_path[:k]
        dest = scope[glom](base, path, scope)
    _apply_for_each(lambda dest: _assign_op(dest=dest, op=op, arg=arg, val=val, path=path, scope=scope), path, dest)
    return target


def del_seq_ref(target, idx):
    """the registered delete handler of sequences: exactly `del target[int(idx)]`"""
    del target[int(idx)]


def set_seq_ref(target, idx, val):
    """the registered assign handler of sequences: exactly `target[int(idx)] = val`"""
    target[int(idx)] = val
