"""Shared contract vocabulary: field types (class invariants established by the constructors), scope keys, summaries."""

FIELD_TYPES = {
    'core.Path.path_t': 'inst:core.TType', 'core.TType.__ops__': 'seq',
    'core.Coalesce.subspecs': 'seq', 'core.Pipe.steps': 'seq',
    'core.Invoke._args': 'seq',
    'core.PathAccessError.part_idx': 'int',
    'matching.And.children': 'seq', 'matching.Or.children': 'seq', 'matching._Bool.children': 'seq',
    'matching._MExpr.op': 'str',
    'matching.Check.validators': 'seq', 'matching.Check.types': 'seq', 'matching.Check.vals': 'ref', 'matching.Check.instance_of': 'seq',
    'mutation.Assign.op': 'str', 'mutation.Delete.op': 'str',
    'mutation.Assign.path': 'inst:core.Path', 'mutation.Assign._orig_path': 'inst:core.Path',
    'mutation.Delete.path': 'inst:core.Path', 'mutation.Delete._orig_path': 'inst:core.Path',
    'reduction.Flatten.lazy': 'bool', 'core._ArgValuator.cache': 'dict',
}

# keys that every scope chain binds (ScopeInv; established by glom() and preserved by _glom)
SCOPE_KEYS = {'CLS_core_Path', 'MODE', 'MIN_MODE', 'CLS_core_TargetRegistry', 'FN_core.glom', 'UP', 'T', 'CHILD_ERRORS', 'ROOT',
              'CLS_core_Inspect'}
# keys bound in the own dict of every frame created by glom()/_glom (FrameInv)
FRAME_KEYS = {'T', 'UP', 'CHILD_ERRORS', 'MODE', 'MIN_MODE'}
SCOPE_KEY_TYPES = {'CLS_core_Path': 'list', 'LAST_CHILD_SCOPE': 'chainmap', 'UP': 'chainmap', 'ROOT': 'chainmap', 'CHILD_ERRORS': 'list',
                   'CLS_core_TargetRegistry': 'inst:core.TargetRegistry', 'MODE': 'simple', 'MIN_MODE': 'simple'}

# callees replaced by uninterpreted summaries at call sites (they are under their own contracts, or assumed: see each check)
SUMMARIES = {
    'core.arg_val': 'arg_val', 'core._t_eval': 't_eval', 'core.TargetRegistry.get_handler': 'get_handler',
    'core._handle_dict': 'handle_dict', 'core._handle_list': 'handle_list', 'core._handle_tuple': 'handle_tuple',
    'core.Path.from_text': 'path_from_text', 'core._glom': 'glom_inner', 'core.glom': 'glom_top',
    'core.format_target_spec_trace': 'format_trace', 'core.GlomError._finalize': 'finalize',
    'matching._handle_dict': 'match_handle_dict', 'grouping.target_iter': 'target_iter',
}


SUMMARY_RESULT_TAGS = {'path_from_text': 'inst:core.Path'}


def _stars_model(ex, st, clo, args):
    """TType.__stars__(): number of wildcard steps, an abstract pure function of the ops tuple (its definition is the contract
    on core.TType.__stars__ in C14)"""
    import z3
    from pyvc import z as Z
    from pyvc.engine import SV
    selfsv = clo.selfsv if clo.selfsv is not None else args.pos[0]
    ops = ex.getattr_(st, selfsv, '__ops__')[0][2]
    t = Z.fn('stars', Z.SeqR, Z.I)(ex.as_seq(st, ops))
    st.add(t >= 0)
    return [('ok', st, SV('int', t))]


def _is_iterable_model(ex, st, args):
    """boltons.iterutils.is_iterable: a plain Python function object is not iterable (fact about function objects); anything else stays opaque"""
    from pyvc.sym import sv_bool
    if len(args.pos) == 1 and args.pos[0].k == 'func':
        return [('ok', st, sv_bool(False))]
    return None


def apply(cfg, summaries=None, drop=()):
    cfg.extern['boltons.iterutils.is_iterable'] = _is_iterable_model
    cfg.pure_models['core.TType.__stars__'] = _stars_model
    cfg.summary_result_tags.update(SUMMARY_RESULT_TAGS)
    cfg.field_types.update(FIELD_TYPES)
    cfg.scope_keys |= SCOPE_KEYS
    cfg.frame_keys |= FRAME_KEYS
    cfg.scope_key_types.update(SCOPE_KEY_TYPES)
    cfg.optional_attrs.add('get_message')       # GlomError subclasses may or may not define it (GlomError.__str__ probes for it)
    for k, v in (summaries if summaries is not None else SUMMARIES).items():
        if k not in drop:
            cfg.summaries[k] = v
    return cfg


_EXPANDING = []


def shared(mod, labels):
    """contracts defined in another contract module, verified under THAT module's configuration (so a check can claim them without
    its own configuration interfering)"""
    def cfg_of(cfg):
        cfg.summaries.clear(); cfg.pure_models.clear(); cfg.field_types.clear(); cfg.scope_key_types.clear(); cfg.summary_result_tags.clear()
        cfg.pure_ctors.clear(); cfg.inline_star_ctors.clear(); cfg.opaque_globals.clear(); cfg.class_attr_models.clear(); cfg.kwdict_copy_as_dict = False
        cfg.hooks.clear()
        mod.config(cfg)
    out = []
    name = mod.__name__
    if name in _EXPANDING:
        return []          # a sharing cycle (A claims from B, B claims from A): cut here; the outermost call checks that every label was found
    _EXPANDING.append(name)
    try:
        pool = mod.contracts()
    finally:
        _EXPANDING.pop()
    if not _EXPANDING:
        have = [c.label for c in pool]
        missing = [l for l in labels if not any(h == l or h.startswith(l + '[') for h in have)]
        if missing:
            raise KeyError('contracts %r not found in %s (claim them from the module that defines them)' % (missing, name))
    for c in pool:
        if any(c.label == l or c.label.startswith(l + '[') for l in labels):
            inner = c.kw.get('config')
            def both(cfg, inner=inner):
                cfg_of(cfg)
                if inner:
                    inner(cfg)
            c.kw = dict(c.kw, config=both)
            out.append(c)
    return out
