"""C02 — T expressions replay exactly the recorded operations on the target."""
from pyvc.verify import Post, Case, Equiv
from contracts import common

PROPERTY = 'C02'
REF_MODULES = ['ref_t', 'h_path', 'ref_extra', 'ref_core', 'ref_auto', 'ref_match', 'ref_reduce', 'ref_registry']
TS = ['len(T.__ops__) == 1', 'T.__ops__[0] is T', 'len(S.__ops__) == 1', 'S.__ops__[0] is S', 'len(A.__ops__) == 1', 'A.__ops__[0] is A']


def config(cfg):
    common.apply(cfg)
    cfg.summaries['core._extend_children'] = 'extend_children'
    cfg.summaries['core._s_first_magic'] = 's_first_magic'
    cfg.summaries['core._assign_op'] = 'assign_op'


def _nosum(*names):
    def f(cfg):
        for n in names:
            cfg.summaries.pop(n, None)
    return f


LOOPVARS = [('i', 'int'), ('cur', 'ref'), ('target', 'ref'), ('scope', 'chainmap'), ('_t', 'inst:core.TType'), ('t_path', 'seq'),
            ('fetch_till', 'int'), ('root', 'ref'), ('pae', 'ref')]
REFVARS = [('i', 'int'), ('cur', 'ref'), ('target', 'ref'), ('scope', 'chainmap'), ('_t', 'inst:core.TType'), ('ops', 'seq'),
           ('end', 'int'), ('root', 'ref'), ('=None', 'ref')]


def contracts():
    cs = []
    cs.append(Equiv('core._t_eval', 'ref_t.teval_ref',
                    args={'target': 'ref', '_t': 'inst:core.TType', 'scope': 'chainmap'},
                    requires=TS + ['len(_t.__ops__) % 2 == 1'],
                    loops={1: dict(ref=1, vars=[('target', 'ref'), ('scope', 'chainmap')], ref_vars=[('target', 'ref'), ('scope', 'chainmap')]),
                           2: dict(ref=2, vars=LOOPVARS, ref_vars=REFVARS, inv=['pae is None']),
                           3: dict(ref=3, vars=[('nxt', 'list'), ('sofar', 'ref'), ('get_handler', 'ref')],
                                   ref_vars=[('children', 'list'), ('seen', 'ref'), ('lookup', 'ref')]),
                           4: dict(ref=4, vars=[('cur', 'list'), ('todo', 'inst:core.TType'), ('scope', 'chainmap')],
                                   ref_vars=[('results', 'list'), ('rest', 'inst:core.TType'), ('scope', 'chainmap')])}))
    # recorders: every operator dunder of T appends exactly one (code, argument) pair; the code is the one teval_ref decodes as that
    # very Python operation (table below is the contract; _t_eval is proved against teval_ref above)
    table = {'__add__': '+', '__sub__': '-', '__mul__': '*', '__floordiv__': '#', '__truediv__': '/', '__mod__': '%', '__pow__': ':',
             '__and__': '&', '__or__': '|', '__xor__': '^', '__getitem__': '['}
    for dunder, code in table.items():
        pname = 'item' if dunder == '__getitem__' else 'arg'
        cs.append(Post('core.TType.%s' % dunder, helpers='h_path', cases=[
            Case('T-rooted', args={'self': 'inst:core.TType', pname: 'ref'}, requires=TS + ['len(self.__ops__) >= 1', 'self.__ops__[0] is not A'],
                 ensures=['same(result.__ops__, self.__ops__ + (%r, %s))' % (code, pname), 'result is not self'])]))
    for dunder, code in {'__invert__': '~', '__neg__': '_', '__star__': 'x', '__starstar__': 'X'}.items():
        cs.append(Post('core.TType.%s' % dunder, helpers='h_path', cases=[
            Case('T-rooted', args={'self': 'inst:core.TType'}, requires=TS + ['len(self.__ops__) >= 1', 'self.__ops__[0] is not A'],
                 ensures=['same(result.__ops__, self.__ops__ + (%r, None))' % code])]))
    cs.append(Post('core.TType.__getattr__', helpers='h_path', cases=[
        Case('plain', args={'self': 'inst:core.TType', 'name': 'str'}, requires=TS + ['len(self.__ops__) >= 1', 'self.__ops__[0] is not A', "not name.startswith('__')"],
             ensures=["same(result.__ops__, self.__ops__ + ('.', name))"]),
        Case('dunder', args={'self': 'inst:core.TType', 'name': 'str'}, requires=["name.startswith('__')"], ensures=['False'], raises={'AttributeError': 'True'})]))
    cs.append(Post('core._t_child', helpers='h_path', cases=[
        Case('A-root', args={'parent': 'inst:core.TType', 'operation': 'str', 'arg': 'ref'}, requires=TS + ['len(parent.__ops__) >= 1', 'parent.__ops__[0] is A'],
             ensures=["operation in ('.', '[', 'P')", 'same(result.__ops__, parent.__ops__ + (operation, arg))'],
             raises={'core.BadSpec': "operation not in ('.', '[', 'P')"})]))
    from contracts import extra
    cs += common.shared(extra, ['core.TType.__call__'])
    # the call step runs Call(cur, args, kwargs) through the evaluator and every literal argument goes through arg_val: their contracts
    # (C03 / C08) carry 'the call is applied to the value reached so far' and 'every other argument is passed through literally'
    from contracts import C03, C08
    cs += common.shared(extra, ['core.Call.__init__'])
    cs += common.shared(C03, ['core.Call.glomit'])
    cs += common.shared(C08, ['core.arg_val', 'core._ArgValuator.mode'])
    # what counts as a spec among the arguments (a class that merely defines glomit is a literal), registry lookups of the 'P' step
    from contracts import C13, C07, C14, C18, X_ctor
    cs += common.shared(C03, ['core._has_callable_glomit'])
    cs += common.shared(C13, ['core.TargetRegistry.get_handler', 'core.TargetRegistry.get_type_map', 'core.TargetRegistry._get_closest_type'])
    cs += common.shared(C07, ['core._s_first_magic'])
    cs += common.shared(C14, ['core._extend_children'])
    cs += common.shared(C18, ['core.Path.__init__'])
    cs += common.shared(X_ctor, ['core._ArgValuator.__init__'])
    return cs


from contracts import native as _n
_TX = ["T['a']", "T.a", "T['a']['b']", "T[0]", "T['a'][T['i']]", "T + 1", "T['n'] // 2", "T['n'] % 0", "-T['n']", "~T['n']", "T['n'] ** 2", "T['n'] / T['d']",
       "T['f'](T['n'])", "T['f'](2, k=T['n'])", "T.__star__()", "T['a'].__starstar__()", "T['l'][1:]", "T['n'] & 3", "T['n'] | 8", "T['n'] ^ 1",
       "T['n'] * 'x'", "T['n'] - None", "-T['s']", "T['zz']['yy']", "T['a']['zz'][T['zz2']]", "S['k']", "S.k", "T['l'].__star__()['q']"]
_TT = ["{'a': {'b': 1}, 'i': 'b', 'n': 7, 'd': 2, 'f': (lambda *a, **k: (a, sorted(k.items()))), 'l': [{'q': 1}, {'r': 2}, {'q': 3}], 's': 'str'}",
       "{'n': 0, 'd': 0, 'a': None}", "[1, 2]", "None"]
NATIVE = {
    'core._t_eval': _n.differ('core._t_eval', 'ref_t.teval_ref', lambda: [(t, s) for t in _TT for s in _TX]),
}

ASSUMPTIONS = [
    'G-contract (the call step goes through scope[glom]); opaque user primitives getattr / getitem / call / arithmetic (each may raise anything)',
    'callee summaries: arg_val (C08), TargetRegistry.get_handler (C13), _extend_children / recursive _t_eval for the wildcard branch (C14), _s_first_magic, _assign_op (C07/C11)',
    'T.__ops__ == (T,), S.__ops__ == (S,), A.__ops__ == (A,); representation invariant len(ops) odd on entry',
    'comparing an op code with a one-character string constant is string equality (op codes are str objects)',
]
TRUSTED = ['reference semantics contracts/ref_t.py']
EXPLANATION = ('_t_eval (all branches: attribute, item, path segment, wildcards, call, the twelve arithmetic steps, S/A roots) is proved equal to '
               'teval_ref for every length of the recorded chain (while loop justified by loop-body equivalence + head invariant pae is None); '
               'every recorder dunder is proved to append exactly one (code, argument) pair.')
CANARIES = [
    {'name': 't_eval: part index off by one', 'module': 'core', 'only': ['core._t_eval'], 'expect': ['core._t_eval'],
     'old': "            except AttributeError as e:\n                pae = PathAccessError(e, Path(_t), i // 2)", 'new': "            except AttributeError as e:\n                pae = PathAccessError(e, Path(_t), (i + 1) // 2)"},
    {'name': 't_eval: call evaluated against cur', 'module': 'core', 'only': ['core._t_eval'], 'expect': ['core._t_eval'],
     'old': "                target, Call(cur, args, kwargs), scope)", 'new': "                cur, Call(cur, args, kwargs), scope)"},
    {'name': 't_eval: % decoded as /', 'module': 'core', 'only': ['core._t_eval'], 'expect': ['core._t_eval'],
     'old': "                    cur = cur % arg", 'new': "                    cur = cur / arg"},
    {'name': 'recorder: __sub__ records +', 'module': 'core', 'only': ['core.TType.__sub__'], 'expect': ['core.TType.__sub__'],
     'old': "        return _t_child(self, '-', arg)", 'new': "        return _t_child(self, '+', arg)"},
]
