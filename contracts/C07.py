"""C07 — scope bindings are lexically scoped, chain forward, never outlive the call."""
from pyvc.verify import Post, Case, Equiv, NativeFacts
from contracts import common, C02, C03, C04, C08, C10, C09

PROPERTY = 'C07'
REF_MODULES = ['ref_core', 'ref_auto', 'ref_t', 'ref_match', 'ref_reduce', 'h_path']


def config(cfg):
    C02.config(cfg)
    C04.config(cfg)
    cfg.summaries['core._ArgValuator'] = 'new_argvaluator'
    cfg.field_types.update({'matching.Switch.cases': 'list', 'core.Let._binding': 'ref', 'core.Spec.scope': 'ref'})
    cfg.summaries['matching.And._glomit'] = 'and_glomit'
    cfg.summaries['matching.Or._glomit'] = 'or_glomit'
    cfg.summaries['matching._precedence'] = 'precedence'
    cfg.field_types.update({'matching.Optional.key': 'ref', 'matching.Required.key': 'ref'})


def _nosum(*names):
    def f(cfg):
        for n in names:
            cfg.summaries.pop(n, None)
    return f


def contracts():
    cs = []
    # binders and readers
    cs.append(Equiv('core._s_first_magic', 'ref_core.s_first_magic_ref', config=_nosum('core._s_first_magic'), args={'scope': 'chainmap', 'key': 'ref', '_t': 'inst:core.TType'},
                    requires=C02.TS + ['len(_t.__ops__) % 2 == 1']))
    cs.append(Equiv('core.Vars.glomit', 'ref_core.vars_glomit_ref', args={'self': 'inst:core.Vars', 'target': 'ref', 'spec': 'chainmap'}))
    cs.append(Equiv('core.ScopeVars.__init__', 'ref_core.scopevars_init_ref', config=_nosum('core.ScopeVars'),
                    args={'self': 'inst:core.ScopeVars', 'base': 'ref', 'defaults': 'ref'}))
    cs.append(Equiv('core.Let.glomit', 'ref_core.let_glomit_ref', args={'self': 'inst:core.Let', 'target': 'ref', 'scope': 'chainmap'},
                    loops={1: dict(vars=[('target', 'ref'), ('scope', 'chainmap')], ref_vars=[('target', 'ref'), ('scope', 'chainmap')])}))
    cs.append(Equiv('matching.Regex.glomit', 'ref_core.regex_glomit_ref', args={'self': 'inst:matching.Regex', 'target': 'ref', 'scope': 'chainmap'}))
    cs.append(Equiv('core.Spec.glom', 'ref_core.spec_glom_ref', args={'self': 'inst:core.Spec', 'target': 'ref', 'kw': 'kw:scope'}, label='core.Spec.glom[scope]'))
    cs.append(Equiv('core.Spec.glom', 'ref_core.spec_glom_ref', args={'self': 'inst:core.Spec', 'target': 'ref', 'kw': 'kw:'}, label='core.Spec.glom[plain]'))
    # which scope every recursive evaluation receives (shared contracts: the reference semantics fix the scope argument of each call)
    keep3 = ('core._handle_tuple', 'core._handle_dict', 'core._handle_list', 'core.Coalesce.glomit', 'core.Spec.glomit', 'core.Ref.glomit')
    cs += [c for c in C03.contracts() if c.label in keep3]
    cs += [c for c in C08.contracts() if c.label in ('core.chain_child', 'core._glom')]
    cs += [c for c in C10.contracts() if c.label in ('matching.And._glomit', 'matching.Or._glomit', 'matching.Not.glomit', 'matching.Switch.glomit')]
    cs += [c for c in C09.contracts() if c.label in ('matching._handle_dict',)]
    cs += [c for c in C02.contracts() if c.label == 'core._t_eval']
    cs += [c for c in C04.contracts() if c.label in ('core.glom[scope]', 'core.glom[none]')]
    # a Pipe is its own chain: it evaluates exactly the steps it was given (a nested Pipe is one step with its own chained scopes)
    from contracts import X_ctor
    cs += [c for c in C03.contracts() if c.label == 'core.Pipe.glomit']
    cs += common.shared(X_ctor, ['core.Pipe.__init__', 'core.Let.__init__', 'core.Spec.__init__'])
    cs += common.shared(X_ctor, ['core.Vars.__init__'])
    cs += common.shared(C08, ['core.arg_val', 'core._ArgValuator.mode'])
    cs += common.shared(C03, ['core._has_callable_glomit'])
    return cs


from contracts import native as _n
_SC = ["(S(v=T['a']), S['v'])", "(S(v=T['a']), {'x': S['v'], 'y': (S(w=T['a']), S['w'])}, T['y'])", "({'x': (S(v=T['a']), S['v']), 'y': Coalesce(S['v'], default='invisible')}, T['y'])",
       "(A.v, {'k': S.v})", "[ (A.e, S.e) ]", "Coalesce((S(v=T['zz']), S['v']), Coalesce(S['v'], default='not leaked'))",
       "(Ref('r', {'tag': Val('outer'), 'sub': Ref('r', {'tag': Val('inner'), 'sub': Val(None)})}))", "(S(v=Val(1)), (S(v=Val(2)), S['v']), S['v'])",
       "Switch([(S(k=Val('kv')), S['k'])])", "Or(And(S(v=Val(1)), M == 'nope'), Coalesce(S['v'], default='sibling clean'))",
       "(Vars(n=0), A.globals.vv, S.globals.vv)", "(A.globals.g, S.globals.g)", "Spec(S['o'], scope={'o': 'override'})", "(S(v=Val(1)), Spec(S['v'], scope={'v': 'inner'}))",
       "Match({'a': And(A.aa, int)})", "Let(v=T['a'])", "(Let(v=T['a']), S['v'])", "S['preset']"]
NATIVE = {
    'core._glom': _n.differ('core._glom', 'ref_core.glom_inner_ref', lambda: [("{'a': 7}", s) for s in _SC], mode='handler', ),
}
ASSUMPTIONS = [
    'G-contract for sub-evaluations: a child evaluation writes only frames it allocates (plus the bookkeeping keys of its parent frame) -- the guarantee side is the _glom / chain_child / binder contracts proved here',
    'the visibility statements themselves (a binding made in a child frame is found by lookup from later chained steps and not from the enclosing or sibling scopes) follow from '
    'the ChainMap lookup semantics once the scope argument of every recursive evaluation is pinned down, which is what these contracts do; the ChainMap frame-dependence lemma is '
    'used on paper (DESIGN section 3.6), not machine-checked here',
    're.match objects / groupdict() are opaque library values',
]
TRUSTED = ['reference semantics contracts/ref_core.py, ref_auto.py, ref_match.py, ref_t.py', 'collections.ChainMap model (maps[0] writes, lookup through parents)']
EXPLANATION = ('binders (S(k=..) / A.k in _t_eval, Let, Regex groups, Spec(scope=), Ref definitions, Vars / ScopeVars, glom(scope=)) and the scope argument of every recursive '
               'evaluation (own scope for dict values, list elements, Coalesce / And / Or branches and Switch keys; chain_child for tuple steps, Switch values and Match-dict values) '
               'are proved equal to reference semantics; ScopeVars and the per-call root frame are fresh objects.')
CANARIES = [
    {'name': 'tuple: parent scope passed to chained step', 'module': 'core', 'only': ['core._handle_tuple'], 'expect': ['core._handle_tuple'],
     'old': "        scope = chain_child(scope)\n        nxt = scope[glom]", 'new': "        nxt = scope[glom]"},
    {'name': 'Vars: shared ScopeVars', 'module': 'core', 'only': ['core.Vars'], 'expect': ['core.Vars'],
     'old': "        return ScopeVars(self.base, self.defaults)", 'new': "        if not hasattr(self, '_sv'):\n            self._sv = ScopeVars(self.base, self.defaults)\n        return self._sv"},
]
