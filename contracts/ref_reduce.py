"""Reference semantics of Fold / Sum / Flatten / Merge (C15) and of Group / aggregators (C16), written from the property statements."""
try:
    assume
except NameError:
    def assume(cond):
        return None
import itertools
from glom.core import glom, T, SKIP, STOP, MODE, UnregisteredTarget, BadSpec, TargetRegistry, Path
from glom.reduction import FoldError, Flatten, Fold, Merge
from glom.grouping import GROUP, ACC_TREE, CUR_AGG, target_iter


def fold_ref(self, iterator):
    """functools.reduce(op, iterator, init()) with init() called afresh"""
    acc = self.init()
    op = self.op
    for item in iterator:
        acc = op(acc, item)
    return acc


def flatten_fold_ref(self, iterator):
    """lazy: itertools.chain.from_iterable; eager: the plain fold"""
    if self.lazy:
        return itertools.chain.from_iterable(iterator)
    return Fold._fold(self, iterator)


def merge_fold_ref(self, iterator):
    """successive in-place op(acc, item) (dict.update by default: last writer wins) on a fresh accumulator, which is the result"""
    acc = self.init()
    op = self.op
    for item in iterator:
        op(acc, item)
    return acc


def fold_glomit_ref(self, target, scope):
    """outside Group mode (or when another aggregator is already current): reduce over the iteration of glom(target, subspec);
    a non-iterable target is a FoldError.  In Group mode the first Fold on the way down is the aggregator of the current bucket."""
    aggregating = scope[MODE] is GROUP and scope.get(CUR_AGG) is None
    if aggregating:
        scope[CUR_AGG] = self
    if self.subspec is not T:
        target = scope[glom](target, self.subspec, scope)
    if aggregating:
        return self._agg(target, scope[ACC_TREE])
    try:
        return self._fold(target_iter(target, scope))
    except UnregisteredTarget as ut:
        raise FoldError('can only %s on iterable targets, not %s type (%s)' % (self.__class__.__name__, type(target).__name__, ut))


def fold_agg_ref(self, target, tree):
    """one aggregation step: tree[self] = op(tree[self] or init(), item)"""
    if self not in tree:
        tree[self] = self.init()
    tree[self] = self.op(tree[self], target)
    return tree[self]


def merge_agg_ref(self, target, tree):
    if self not in tree:
        acc = self.init()
        tree[self] = acc
    else:
        acc = tree[self]
    self.op(acc, target)
    return acc


def target_iter_ref(target, scope):
    iterate = scope[TargetRegistry].get_handler('iterate', target, path=scope[Path])
    try:
        return iterate(target)
    except Exception as e:
        raise TypeError('failed to iterate on instance of type %r at %r (got %r)' % (target.__class__.__name__, Path(*scope[Path]), e))


# ------------------------------------------------------------------------------------------------------------------ C16
def first_agg_ref(self, target, tree):
    """First: the first item routed to this leaf; afterwards STOP"""
    if self in tree:
        return STOP
    tree[self] = STOP
    return target


def max_agg_ref(self, target, tree):
    """Max: the running maximum by `>`"""
    if self not in tree:
        tree[self] = target
    elif target > tree[self]:
        tree[self] = target
    return tree[self]


def min_agg_ref(self, target, tree):
    if self not in tree:
        tree[self] = target
    elif target < tree[self]:
        tree[self] = target
    return tree[self]


def avg_agg_ref(self, target, tree):
    """Avg: running [sum, count] pair starting at [0.0, 0]; yields sum / count"""
    if self in tree:
        pair = tree[self]
    else:
        pair = [0.0, 0]
        tree[self] = pair
    pair[0] += target
    pair[1] += 1
    return pair[0] / pair[1]


def limit_glomit_ref(self, target, scope):
    """Limit(n, subspec): the first n items are passed to subspec (with its own accumulator), afterwards STOP"""
    if scope[MODE] is not GROUP:
        raise BadSpec("Limit() only valid in Group mode")
    tree = scope[ACC_TREE]
    if self not in tree:
        tree[self] = [0, {}]
    scope[ACC_TREE] = tree[self][1]
    tree[self][0] += 1
    if tree[self][0] > self.n:
        return STOP
    return scope[glom](target, self.subspec, scope)


def group_glomit_ref(self, target, scope):
    """Group: a FRESH accumulator tree per evaluation; items are fed one by one in iteration order; a STOP result returns the
    previous result; an empty input yields the empty container of the spec's type (or None)"""
    scope[MODE] = GROUP
    scope[CUR_AGG] = None
    scope[ACC_TREE] = {}
    if type(self.spec) in (dict, list):
        result = type(self.spec)()
    else:
        result = None
    for item in target_iter(target, scope):
        previous = result
        result = scope[glom](item, self.spec, scope)
        if result is STOP:
            return previous
    return result


def group_mode_ref(target, spec, scope):
    """group mode on one item: aggregator -> its agg step; callable -> called; list leaf: append every non-SKIP value in
    encounter order (STOP propagates); dict level: key via the key spec (SKIP key skips the item), first occurrence of a key
    creates the sub-accumulator (keys in first-occurrence order), value via the value spec in the key's sub-accumulator"""
    recurse = lambda spec: scope[glom](target, spec, scope)
    tree = scope[ACC_TREE]
    if callable(getattr(spec, "agg", None)):
        return spec.agg(target, tree)
    elif callable(spec):
        return spec(target)
    kind = type(spec)
    if kind not in (dict, list):
        raise BadSpec("Group mode expected dict, list, callable, or aggregator, not: %r" % (spec,))
    ident = id(spec)
    try:
        acc = tree[ident]
    except KeyError:
        acc = kind()
        tree[ident] = acc
    if kind is dict:
        done = True
        for keyspec, valspec in spec.items():
            if tree.get(keyspec, None) is STOP:
                continue
            key = recurse(keyspec)
            if key is SKIP:
                done = False
                continue
            if key is STOP:
                tree[keyspec] = STOP
                continue
            if key not in acc:
                tree[key] = {}
            scope[ACC_TREE] = tree[key]
            result = recurse(valspec)
            if result is STOP:
                tree[keyspec] = STOP
                continue
            done = False
            if result is not SKIP:
                acc[key] = result
        if done:
            return STOP
        return acc
    for valspec in spec:
        if type(valspec) is dict:
            raise BadSpec('dicts within lists are not allowed while in Group mode: %r' % spec)
        result = recurse(valspec)
        if result is STOP:
            return STOP
        if result is not SKIP:
            acc.append(result)
    return acc


def flatten_func_ref(target, **kwargs):
    """flatten(target, spec=T, init=list, levels=1): levels == 0 returns the target itself; otherwise the sub-target is flattened lazily
    levels - 1 times (chain.from_iterable) and the last level is folded into init()"""
    subspec = kwargs.pop('spec', T)
    init = kwargs.pop('init', list)
    levels = kwargs.pop('levels', 1)
    if kwargs:
        raise TypeError('unexpected keyword args: %r' % sorted(kwargs.keys()))
    if levels == 0:
        return target
    if levels < 0:
        raise ValueError('expected levels >= 0, not %r' % levels)
    spec = (subspec,)
    spec += (Flatten(init="lazy"),) * (levels - 1)
    spec += (Flatten(init=init),)
    return glom(target, spec)


def merge_func_ref(target, **kwargs):
    subspec = kwargs.pop('spec', T)
    init = kwargs.pop('init', dict)
    op = kwargs.pop('op', None)
    if kwargs:
        raise TypeError('unexpected keyword args: %r' % sorted(kwargs.keys()))
    return glom(target, Merge(subspec, init, op))


def sum_init_ref(self, subspec=T, init=int):
    """Sum(subspec, init): a Fold of subspec starting from init() whose step is in-place addition"""
    Fold.__init__(self, subspec=subspec, init=init, op=operator.iadd)


def count_init_ref(self):
    """Count(): a Fold over the target itself starting from int() whose step adds one per item (the item value is ignored)"""
    Fold.__init__(self, subspec=T, init=int, op=lambda cur, val: cur + 1)
