"""C19 — the CLI prints what the library computes; default-format specs never execute."""
import ast
from pyvc.verify import Post, Case, Equiv, NativeFacts
from contracts import common

PROPERTY = 'C19'
REF_MODULES = ['ref_cli', 'ref_err', 'ref_extra', 'ref_core']


def config(cfg):
    common.apply(cfg)
    cfg.summaries['cli._eval_python_full_spec'] = 'eval_python_full_spec'
    cfg.summaries['cli.mw_handle_target'] = 'mw_handle_target'
    cfg.pure_ctors.add('core.Inspect')


def _nosum(*names):
    def f(cfg):
        for n in names:
            cfg.summaries.pop(n, None)
    return f


class _UnusedNoExec:
    """C19.no-exec: on every path through mw_get_target on which the executing evaluator _eval_python_full_spec is called, the path condition
    implies spec_format == 'python-full'"""
    kind = 'custom'
    label = 'C19.no-exec'
    kw = {}

    def run(self, v):
        import z3
        from pyvc.verify import make_arg
        from pyvc.engine import State, SV
        node, module, cls, disp, real = v.resolve('cli.mw_get_target')
        node._pyvc_module = module
        v.note_function('cli.mw_get_target')
        cfg = v.config_for(self, 'cli.mw_get_target', {})
        ex = v.new_executor(cfg)
        ex.cur_func_node, ex.cur_func_name = node, 'cli.mw_get_target'
        st = v.init_state(ex, node, {'next_': 'ref', 'posargs_': 'seq', 'target_file': 'ref', 'target_format': 'str', 'spec_file': 'ref', 'spec_format': 'str'})
        fmt = st.env['spec_format']
        outs = ex.run_function('cli.mw_get_target', node, module, st, None)
        n_exec = 0
        from pyvc import z as Z
        goal_fmt = fmt.v == z3.StringVal('python-full')
        for o in outs:
            if any(e and e[0] == 'eval_python_full_spec' for e in o.st.events):
                n_exec += 1
                v.add('C19.no-exec::executing-evaluator-only-under-python-full', 'cli.mw_get_target',
                      "a path that calls _eval_python_full_spec implies spec_format == 'python-full'", o.st.pc, goal_fmt, 'ensures')
        v.covers.append(('C19.no-exec::the executing path exists', n_exec > 0))
        v.stats['paths'] += len(outs)


def _exec_sites(repo):
    """every call of eval / exec / compile / __import__ in cli.py, by enclosing function"""
    sites = []
    for name, fi in repo.functions.items():
        if fi.module != 'cli':
            continue
        for n in ast.walk(fi.node):
            if isinstance(n, ast.Call) and isinstance(n.func, ast.Name) and n.func.id in ('eval', 'exec', 'compile', '__import__'):
                sites.append((fi.qual, n.func.id))
    return sorted(set(sites))


def contracts():
    cs = []
    cs.append(Equiv('cli.glom_cli', 'ref_cli.glom_cli_ref', args={'target': 'ref', 'spec': 'ref', 'indent': 'int', 'debug': 'bool', 'inspect': 'bool', 'scalar': 'bool'}))
    # mw_get_target, split by argument count x spec format x which of the file arguments are given (each case finishes; the whole function
    # at once does not): spec / target selection, usage errors, and -- per case -- which evaluator the spec text reaches
    summ = lambda cfg: cfg.summaries.update({'cli.mw_handle_target': 'handle_target', 'cli._eval_python_full_spec': 'eval_full_spec'})
    import os
    quick_cases = {(2, 'python', 'no-files'), (1, 'python', 'no-files'), (0, 'python', 'no-files'), (2, 'json', 'no-files'), (2, 'python-full', 'no-files'),
                   (2, 'other', 'no-files'), (0, 'python', 'spec-file'), (1, 'python-full', 'spec-file'), (1, 'python', 'target-file'), (2, 'json', 'target-file')}
    all_cases = os.environ.get('PYVC_TIER') == 'thorough' or os.environ.get('PYVC_ALL_CASES')
    for nargs, ptag in ((0, 'tuple:'), (1, 'tuple:str'), (2, 'tuple:str,str')):
        for fmt in ('python', 'json', 'python-full', 'other'):
            for files, (sf, tf) in (('no-files', ('none', 'none')), ('spec-file', ('str', 'none')), ('target-file', ('none', 'str'))):
                if not all_cases and (nargs, fmt, files) not in quick_cases:
                    continue          # the quick tier proves ten of the 36 argument-shape cases; the thorough tier all of them
                req = ["spec_format == %r" % fmt] if fmt != 'other' else ["spec_format != 'python'", "spec_format != 'json'", "spec_format != 'python-full'"]
                cs.append(Equiv('cli.mw_get_target', 'ref_cli.get_target_ref', label='cli.mw_get_target[%d,%s,%s]' % (nargs, fmt, files),
                                args={'next_': 'ref', 'posargs_': ptag, 'target_file': tf, 'target_format': 'ref', 'spec_file': sf, 'spec_format': 'str'},
                                requires=req, config=summ))
    # the flag table: format names reach the middleware exactly as typed (a flag parser that rewrites them changes which branch runs)
    cs.append(Equiv('cli.get_command', 'ref_cli.get_command_ref', args={}))
    cs.append(Equiv('cli.main', 'ref_cli.main_ref', args={'argv': 'ref'}, config=lambda cfg: cfg.summaries.update({'cli.get_command': 'get_command'})))
    cs.append(Equiv('cli.mw_handle_target', 'ref_cli.handle_target_ref', config=_nosum('cli.mw_handle_target'), args={'target_text': 'ref', 'target_format': 'str'}))
    # mw_get_target: path-wise symbolic execution of this function does not finish in the quick budget (thousands of paths through opaque
    # library calls with string conditions), so its relational contract is NOT claimed as proved; the no-exec clause is decided by the
    # syntactic guard obligation below, its input/output behaviour by the labelled bounded differential replay against get_target_ref.

    class _Sites(NativeFacts):
        def run(self, v):
            sites = _exec_sites(v.repo)
            self.items = [('exec-sites', "calls of eval/exec/compile/__import__ in cli.py occur only in _compile_code: %r" % (sites,),
                           lambda f, sites=sites: all(fn == '_compile_code' for fn, _ in sites) and len(sites) >= 1)]
            callers = []
            for name, fi in v.repo.functions.items():
                if fi.module == 'cli':
                    for n in ast.walk(fi.node):
                        if isinstance(n, ast.Call) and isinstance(n.func, ast.Name) and n.func.id in ('_compile_code', '_eval_python_full_spec'):
                            callers.append((fi.qual, n.func.id))
            callers = sorted(set(callers))
            self.items.append(('exec-callers', "_compile_code is called only by _eval_python_full_spec, which is called only by mw_get_target: %r" % (callers,),
                               lambda f, c=callers: c == [('_eval_python_full_spec', '_compile_code'), ('mw_get_target', '_eval_python_full_spec')]))
            # guard: inside mw_get_target the call sits in a branch whose condition is  spec_format == 'python-full'  and spec_format is never reassigned
            fi = v.repo.functions['cli.mw_get_target']

            def guarded():
                ok_calls, all_calls = 0, 0
                assigned = any(isinstance(n, ast.Name) and n.id == 'spec_format' and isinstance(n.ctx, ast.Store) for n in ast.walk(fi.node))
                def visit(stmts, guard):
                    nonlocal ok_calls, all_calls
                    for st in stmts:
                        if isinstance(st, ast.If):
                            t = st.test
                            is_guard = (isinstance(t, ast.Compare) and isinstance(t.left, ast.Name) and t.left.id == 'spec_format' and len(t.ops) == 1
                                        and isinstance(t.ops[0], ast.Eq) and isinstance(t.comparators[0], ast.Constant) and t.comparators[0].value == 'python-full')
                            visit(st.body, guard or is_guard)
                            visit(st.orelse, guard)
                            for n in ast.walk(st.test):
                                if isinstance(n, ast.Call) and isinstance(n.func, ast.Name) and n.func.id == '_eval_python_full_spec':
                                    all_calls += 1
                            continue
                        sub_blocks = []
                        for fld in ('body', 'orelse', 'finalbody'):
                            if hasattr(st, fld) and isinstance(getattr(st, fld), list):
                                sub_blocks.append(getattr(st, fld))
                        if hasattr(st, 'handlers'):
                            sub_blocks += [h.body for h in st.handlers]
                        if sub_blocks:
                            for blk in sub_blocks:
                                visit(blk, guard)
                            continue
                        for n in ast.walk(st):
                            if isinstance(n, ast.Call) and isinstance(n.func, ast.Name) and n.func.id == '_eval_python_full_spec':
                                all_calls += 1
                                ok_calls += bool(guard)
                visit(fi.node.body, False)
                return (not assigned) and all_calls >= 1 and ok_calls == all_calls
            self.items.append(('exec-guard', "every call of _eval_python_full_spec in mw_get_target is inside a branch guarded by spec_format == 'python-full' (and spec_format is not reassigned)",
                               lambda f: guarded()))
            NativeFacts.run(self, v)
    cs.append(_Sites('C19.exec-sites', [], func='glom/cli.py'))
    # "a GlomError yields exit status 1 with a message naming the error": printing the error renders its trace (contracts shared with C05)
    from contracts import C05
    cs += common.shared(C05, ['core._format_trace_value', 'core.format_target_spec_trace', 'core.GlomError.__str__'])
    cs += common.shared(C05, ['core.GlomError._finalize'])
    return cs


def _cli_run(fn_get, fn_handle, argv_like, files, stdin_text):
    """drives a (mw_get_target-like, mw_handle_target-like) pair natively with faked files / stdin; -> outcome"""
    import io, sys, builtins, glom.cli as cli
    real_open, real_stdin, real_isatty, real_handle = builtins.open, sys.stdin, cli.isatty, cli.mw_handle_target

    def fake_open(path, *a, **k):
        if path in files:
            return io.StringIO(files[path])
        raise FileNotFoundError(2, 'No such file', path)
    builtins.open = fake_open
    sys.stdin = io.StringIO(stdin_text or '')
    cli.isatty = lambda s: stdin_text is None
    cli.mw_handle_target = fn_handle
    try:
        posargs, target_file, target_format, spec_file, spec_format = argv_like
        try:
            return ('ok', repr(fn_get(lambda spec, target: (spec, target), posargs, target_file, target_format, spec_file, spec_format)))
        except BaseException as e:
            import re
            return ('exc', type(e).__name__, re.sub(r' at 0x[0-9a-f]+', '', str(e))[:80])
    finally:
        builtins.open, sys.stdin, cli.isatty, cli.mw_handle_target = real_open, real_stdin, real_isatty, real_handle


def _cli_cases():
    specs = ["a", "'a.b'", "{'x': 'a'}", "('a', 'b')", "[", "__import__('os').getcwd()", "{\"a\": __import__(\"os\").sep}", "(lambda: 1)()", "T['a']", '{"k": "a"}', ""]
    targets = ['{"a": {"b": 1}}', '[]', '0', 'null', '', '{bad json', "{'a': 1}", 'a: 1', 'a = 1']
    for sp in specs:
        for tg in targets[:5]:
            for sf in ('python', 'json', 'python-full', 'bogus'):
                yield ((sp, tg), None, 'json', None, sf), {}, None
    for tg in targets:
        for tf in ('json', 'python', 'yaml', 'toml', 'yml', 'xml'):
            yield (('a',), 't.txt', tf, None, 'python'), {'t.txt': tg}, None
            yield (('a', '-'), None, tf, None, 'python'), {}, tg
            yield (('a',), None, tf, None, 'python'), {}, tg
    yield (('a', '{}'), 't.txt', 'json', None, 'python'), {'t.txt': '{}'}, None
    yield (('a',), None, 'json', 's.txt', 'python'), {'s.txt': "'b'"}, '{"b": 2}'
    yield ((), None, 'json', 's.txt', 'python'), {'s.txt': "'b'"}, '{"b": 2}'
    yield ((), None, 'json', 'missing.txt', 'python'), {}, '{"b": 2}'
    yield (('a',), 'missing.txt', 'json', None, 'python'), {}, None
    yield ((), None, 'json', None, 'python'), {}, '{"b": 2}'


def _mk_cli_replay():
    def find(name, model, count=None):
        import glom.cli as cli
        from contracts import ref_cli
        real_get = getattr(cli.mw_get_target, '__wrapped__', cli.mw_get_target)
        for argv_like, files, stdin_text in _cli_cases():
            if count is not None:
                count[0] += 1
            a = _cli_run(real_get, cli.mw_handle_target, argv_like, files, stdin_text)
            b = _cli_run(ref_cli.get_target_ref, ref_cli.handle_target_ref, argv_like, files, stdin_text)
            if a != b:
                code = ("import glom.cli as cli\nfrom contracts import ref_cli\nfrom contracts.C19 import _cli_run\nreal = getattr(cli.mw_get_target, '__wrapped__', cli.mw_get_target)\n"
                        "a = _cli_run(real, cli.mw_handle_target, %r, %r, %r)\nb = _cli_run(ref_cli.get_target_ref, ref_cli.handle_target_ref, %r, %r, %r)\n"
                        "print('real code      :', a)\nprint('reference says :', b)\nassert a == b\n" % (argv_like, files, stdin_text, argv_like, files, stdin_text))
                return {'input': {'args': argv_like, 'files': files, 'stdin': stdin_text}, 'observed': repr(a), 'expected': repr(b), 'replay_code': code}
        return None
    def run():
        n = [0]
        w = find('(differential replay)', {}, n)
        return n[0], w
    find.run = run
    find.real_name, find.ref_name = 'cli.mw_get_target + mw_handle_target', 'ref_cli.get_target_ref + handle_target_ref'
    return find


def bounded_cli_end_to_end(tier, seed):
    """python -m glom style runs through cli.main: stdout is json.dumps(glom(target, spec), indent=2, sort_keys=True), exit status 0; a GlomError gives
    status 1 and names the error; a malformed target is a usage error; a default-format spec text containing code is never executed"""
    import io, json, os, contextlib, glom
    from glom import cli
    cases, failures = 0, []
    def run(argv, stdin_text=None):
        out, err = io.StringIO(), io.StringIO()
        import sys
        real_stdin = sys.stdin
        sys.stdin = io.StringIO(stdin_text) if stdin_text is not None else real_stdin
        try:
            with contextlib.redirect_stdout(out), contextlib.redirect_stderr(err):
                try:
                    rc = cli.main(['glom'] + argv)
                except SystemExit as e:
                    rc = e.code
                except Exception as e:
                    rc = 'crash:' + type(e).__name__
        finally:
            sys.stdin = real_stdin
        return rc, out.getvalue(), err.getvalue()
    targets = [{'a': {'b': [1, 2]}, 'c': None}, [], 0, {'z': 1, 'a': 2}]
    specs = ['a', "{'x': 'a', 'y': 'c'}", "('a', 'b')", 'c']
    for t in targets:
        for sp in specs:
            cases += 1
            try:
                import ast as _ast
                lit = _ast.literal_eval(sp if sp[0] in '"\'[{(' else repr(sp))
                exp = json.dumps(glom.glom(t, lit), indent=2, sort_keys=True) + '\n'
                exp_rc = 0
            except glom.GlomError as e:
                exp, exp_rc = None, 1
            rc, out, err = run([sp, json.dumps(t)])
            ok = (rc == exp_rc) and (exp is None or out == exp)
            if exp is None:
                ok = ok and 'Error' in out
            if not ok:
                failures.append({'key': 'cli-output', 'input': [sp, json.dumps(t)], 'observed': repr((rc, out))[:200], 'expected': repr((exp_rc, exp))[:200], 'replay_code': None})
    marker = 'GLOM_C19_EXEC_MARK'
    for sp in ['{"a": __import__("os").environ.__setitem__("%s", "1")}' % marker, '[__import__("os").environ.__setitem__("%s", "1")]' % marker,
               '(lambda: __import__("os").environ.__setitem__("%s", "1"))()' % marker, '__import__("os").environ.__setitem__("%s", "1")' % marker]:
        cases += 1
        os.environ.pop(marker, None)
        run([sp, '{}'])
        if os.environ.pop(marker, None):
            failures.append({'key': 'cli-exec', 'input': sp, 'observed': 'the default-format spec text was executed', 'expected': 'never executed', 'replay_code': None})
    cases += 1
    rc, out, err = run(['a', '{bad'])
    if rc == 0 or out.strip().startswith('{'):
        failures.append({'key': 'cli-usage', 'input': 'malformed json target', 'observed': repr((rc, out, err))[:200], 'expected': 'usage error, non-zero status', 'replay_code': None})
    return {'name': 'cli.main end to end', 'bound': '4 targets x 4 literal specs, 4 code-carrying spec texts, malformed target', 'cases': cases, 'failures': failures, 'label': 'bounded'}


NATIVE = {'cli.mw_get_target': _mk_cli_replay()}
BOUNDED = [bounded_cli_end_to_end]
ASSUMPTIONS = [
    'face delivers parsed flags / positional arguments to the middleware and turns UsageError into a non-zero exit (A-face); @face_middleware returns the function unchanged',
    'ast.literal_eval does not execute code; json / yaml / tomllib loaders, open(), sys.stdin, print are opaque library primitives',
    'mw_get_target is proved equal to its reference per argument shape (argument count x spec format x which file argument is given: 10 of the 36 shapes in the quick tier, all 36 in the thorough tier; both file arguments at once is not among them); the no-exec clause is ALSO the syntactic guard obligation '
    '(every call of the executing evaluator sits under  spec_format == "python-full" ), its behaviour is covered by the labelled bounded differential replay',
]
TRUSTED = ['reference semantics contracts/ref_cli.py']
EXPLANATION = ('glom_cli (what is printed and returned for success / GlomError, indent, sort_keys, --scalar) and mw_handle_target (loader per format, every loader error a usage error) '
               'are proved equal to reference semantics; eval/exec/compile occur only in _compile_code, reached only through _eval_python_full_spec, whose only call is guarded by the python-full format; get_command (flag table) and main are proved equal to their references.')
CANARIES = [
    {'name': 'glom_cli: sort_keys dropped', 'module': 'cli', 'only': ['cli.glom_cli'], 'expect': ['cli.glom_cli'],
     'old': "print(json.dumps(result, indent=indent, sort_keys=True))", 'new': "print(json.dumps(result, indent=indent))"},
    {'name': 'handle_target: loader error returned as result', 'module': 'cli', 'only': ['cli.mw_handle_target'], 'expect': ['cli.mw_handle_target'],
     'old': "        raise UsageError('could not load target data, got: %s: %s'\n                         % (e.__class__.__name__, e))", 'new': "        return {}"},
    {'name': 'get_command: spec format lower-cased by the flag parser', 'module': 'cli', 'only': ['cli.get_command'], 'expect': ['cli.get_command'], 'old': "    cmd.add('--spec-format', str, missing='python',", 'new': "    cmd.add('--spec-format', str.lower, missing='python',"},
]
