"""C15 — Fold, Sum, Flatten, Merge equal plain-Python reductions and mutate no input."""
from pyvc.verify import Post, Case, Equiv, NativeFacts
from contracts import common

PROPERTY = 'C15'
REF_MODULES = ['ref_reduce', 'ref_extra', 'ref_core', 'ref_registry', 'ref_auto', 'ref_match']
CLASSES = ['Fold', 'Sum', 'Count', 'Flatten', 'Merge']


def config(cfg):
    common.apply(cfg)
    for c in CLASSES:
        cfg.summaries['reduction.%s._fold' % c] = 'fold_of_' + c
        cfg.summaries['reduction.%s._agg' % c] = 'agg_of_' + c
    cfg.summaries['reduction.Fold._fold'] = 'fold_of_Fold'
    cfg.scope_key_types.update({'grouping_ACC_TREE': 'dict'})
    cfg.field_types.update({'reduction.Flatten.lazy': 'bool'})


def _nosum(*names):
    def f(cfg):
        for n in names:
            cfg.summaries.pop(n, None)
    return f


def contracts():
    cs = []
    fold_loop = {1: dict(vars=[('ret', 'ref'), ('op', 'ref')], ref_vars=[('acc', 'ref'), ('self', 'inst:reduction.Fold')])}
    cs.append(Equiv('reduction.Fold._fold', 'ref_reduce.fold_ref', config=_nosum('reduction.Fold._fold'),
                    args={'self': 'inst:reduction.Fold', 'iterator': 'ref'},
                    loops={1: dict(vars=[('ret', 'ref'), ('op', 'ref'), ('self', 'inst:reduction.Fold')],
                                   ref_vars=[('acc', 'ref'), ('op', 'ref'), ('self', 'inst:reduction.Fold')])}))
    cs.append(Equiv('reduction.Flatten._fold', 'ref_reduce.flatten_fold_ref', config=_nosum('reduction.Flatten._fold'),
                    args={'self': 'inst:reduction.Flatten', 'iterator': 'ref'}))
    cs.append(Equiv('reduction.Merge._fold', 'ref_reduce.merge_fold_ref', config=_nosum('reduction.Merge._fold'),
                    args={'self': 'inst:reduction.Merge', 'iterator': 'ref'},
                    loops={1: dict(vars=[('ret', 'ref'), ('op', 'ref'), ('self', 'inst:reduction.Merge')],
                                   ref_vars=[('acc', 'ref'), ('op', 'ref'), ('self', 'inst:reduction.Merge')])}))
    for c in CLASSES:
        cs.append(Equiv('reduction.Fold.glomit', 'ref_reduce.fold_glomit_ref', label='reduction.Fold.glomit[%s]' % c,
                        args={'self': 'inst:reduction.%s' % c, 'target': 'ref', 'scope': 'chainmap'}))
    cs.append(Equiv('reduction.Fold._agg', 'ref_reduce.fold_agg_ref', config=_nosum('reduction.Fold._agg'),
                    args={'self': 'inst:reduction.Fold', 'target': 'ref', 'tree': 'dict'}))
    cs.append(Equiv('reduction.Merge._agg', 'ref_reduce.merge_agg_ref', config=_nosum('reduction.Merge._agg'),
                    args={'self': 'inst:reduction.Merge', 'target': 'ref', 'tree': 'dict'}))
    cs.append(Equiv('grouping.target_iter', 'ref_reduce.target_iter_ref', config=_nosum('grouping.target_iter'),
                    args={'target': 'ref', 'scope': 'chainmap'}))
    cs.append(NativeFacts('C15.class-facts', [
        ('FoldError<=GlomError', 'issubclass(FoldError, GlomError)', lambda f: f.issub('reduction.FoldError', 'core.GlomError')),
    ], func='class FoldError'))
    from contracts import extra
    cs += common.shared(extra, ['reduction.Fold.__init__', 'reduction.Merge.__init__', 'reduction.Flatten.__init__'])
    # the convenience functions and the Sum / Count constructors: which spec they build from their keyword arguments
    ctor = lambda cfg: cfg.summaries.update({'reduction.Flatten': 'new_flatten', 'reduction.Merge': 'new_merge', 'reduction.Fold.__init__': 'fold_init'})
    for name, kw, req in (('defaults', 'kw:', []), ('spec', 'kw:spec', []), ('init', 'kw:init', []), ('levels=0', 'kw:levels=int', ['kw_levels == 0']),
                          ('levels=1', 'kw:levels=int', ['kw_levels == 1']), ('levels=2', 'kw:spec,init,levels=int', ['kw_levels == 2']),
                          ('levels=3', 'kw:levels=int', ['kw_levels == 3']), ('levels<0', 'kw:levels=int', ['kw_levels < 0']), ('bogus', 'kw:bogus', [])):
        cs.append(Equiv('reduction.flatten', 'ref_reduce.flatten_func_ref', label='reduction.flatten[%s]' % name, args={'target': 'ref', 'kwargs': kw},
                        requires=req, config=ctor, raise_only=name in ('levels<0', 'bogus')))
    for name, kw in (('defaults', 'kw:'), ('all', 'kw:spec,init,op'), ('bogus', 'kw:bogus')):
        cs.append(Equiv('reduction.merge', 'ref_reduce.merge_func_ref', label='reduction.merge[%s]' % name, args={'target': 'ref', 'kwargs': kw},
                        config=ctor, raise_only=name == 'bogus'))
    cs.append(Equiv('reduction.Sum.__init__', 'ref_reduce.sum_init_ref', args={'self': 'inst:reduction.Sum', 'subspec': 'ref', 'init': 'ref'}, config=ctor))
    cs.append(Equiv('reduction.Count.__init__', 'ref_reduce.count_init_ref', args={'self': 'inst:reduction.Count'}, config=ctor))
    from contracts import C13 as _c13, C03 as _c03
    cs += common.shared(_c13, ['core.TargetRegistry.get_handler', 'core.TargetRegistry.get_type_map', 'core.TargetRegistry._get_closest_type', 'core.TargetRegistry.register'])
    cs += common.shared(_c03, ['core._has_callable_glomit'])
    return cs


from contracts import native as _n
_IT = ["[1, 2, None]", "[1, 2, 3]", "[]", "[[1], [2, 3]]", "[(1,), (2,)]", "['a', 'b']", "[{'a': 1}, {'a': 2, 'b': 3}]", "(x for x in [[1], [2]])", "3", "None", "{'k': [[1], [2]]}", "[[[1]], [[2], [3]]]"]
_FS = ["Fold(T, init=lambda: 0, op=lambda a, v: v)", "Sum()", "Sum(init=float)", "Fold(T, init=list)", "Fold(T, init=int, op=lambda a, b: a * 2 + b)", "Flatten()", "Flatten(init='lazy')", "Flatten(init=tuple)", "Merge()",
       "Count()", "Sum(T['k'])", "Flatten('k')", "Sum(init=str)", "Merge(init=OrderedDict)", "Fold(T, init=lambda: [0], op=lambda a, b: a + [b])"]
_FL = [("[[1, 2], [3], [4]]", "{'init': int, 'levels': 2}"), ("[[[1], [2]], [[3]]]", "{'levels': 2}"), ("[[[1], [2]], [[3]]]", "{'levels': 3}"), ("[[1], [2]]", "{}"),
       ("[[1], [2]]", "{'levels': 0}"), ("[[1], [2]]", "{'levels': -1}"), ("[[(1,), (2,)], [(3,)]]", "{'init': tuple, 'levels': 2}"), ("{'k': [[1], [2]]}", "{'spec': 'k'}"),
       ("[['a'], ['b', 'c']]", "{'init': str, 'levels': 1}"), ("[[[1.5]], [[2.5]]]", "{'init': float, 'levels': 3}"), ("[[1]]", "{'bogus': 1}"), ("3", "{}")]
_MG = [("[{'a': 1}, {'a': 2, 'b': 3}]", "{}"), ("[{'a': 1}]", "{'init': OrderedDict}"), ("{'k': [{'a': 1}]}", "{'spec': 'k'}"), ("[[1], [2]]", "{'init': list, 'op': 'extend'}"),
       ("[{'a': 1}]", "{'op': 'nope'}"), ("[{1}, {2}]", "{'init': set, 'op': set.update}"), ("3", "{}")]
NATIVE = {
    'reduction.flatten': _n.differ('reduction.flatten', 'ref_reduce.flatten_func_ref', _FL, mode='kwcall'),
    'reduction.merge': _n.differ('reduction.merge', 'ref_reduce.merge_func_ref', _MG, mode='kwcall', prelude='from collections import OrderedDict'),
    'reduction.Fold.glomit': _n.differ('reduction.Fold.glomit', 'ref_reduce.fold_glomit_ref', lambda: [(t, f) for t in _IT for f in _FS], mode='method',
                                       prelude='from collections import OrderedDict\nfrom glom.reduction import Count'),
}
ASSUMPTIONS = [
    'G-contract for the sub-spec; init(), op(acc, item), iteration of the target are opaque user-level primitives (operator.iadd / dict.update mutate at most their first argument: library assumption)',
    'no input element is mutated by glom itself: _fold/_agg pass elements only as the second argument of op and store only into the accumulator tree (heap threading)',
    'flatten()/merge() convenience functions build their spec and call glom(): covered by the bounded differential replay only',
]
TRUSTED = ['reference semantics contracts/ref_reduce.py']
EXPLANATION = ('Fold._fold, Flatten._fold (lazy and eager), Merge._fold, Fold.glomit for each of Fold/Sum/Count/Flatten/Merge (MRO-resolved _fold/_agg), '
               'Fold._agg, Merge._agg and target_iter are proved equal to reference reductions; flatten() / merge() (which spec they build per keyword shape) and Sum / Count constructors are under contract.')
CANARIES = [
    {'name': 'fold: op(v, ret)', 'module': 'reduction', 'only': ['reduction.Fold._fold'], 'expect': ['reduction.Fold._fold'],
     'old': "        for v in iterator:\n            ret = op(ret, v)\n\n        return ret", 'new': "        for v in iterator:\n            ret = op(v, ret)\n\n        return ret"},
    {'name': 'fold: wrong error class', 'module': 'reduction', 'only': ['reduction.Fold.glomit'], 'expect': ['reduction.Fold.glomit'],
     'old': "            raise FoldError('can only", 'new': "            raise TypeError('can only"},
    {'name': 'flatten(): one lazy level too few', 'module': 'reduction', 'only': ['reduction.flatten'], 'expect': ['reduction.flatten'], 'old': '    spec += (Flatten(init="lazy"),) * (levels - 1)', 'new': '    spec += (Flatten(init="lazy"),) * max(levels - 2, 0)'},
    {'name': 'Count counts only non-None items', 'module': 'reduction', 'only': ['reduction.Count.__init__'], 'expect': ['reduction.Count.__init__'], 'old': 'op=lambda cur, val: cur + 1)', 'new': 'op=lambda cur, val: cur + (val is not None))'},
]
