"""Lemma subjects: the Python operators applied to matching objects, resolved by ordinary method dispatch on the object's class (so an
operator method added to or overridden in a subclass is what gets executed, not the base-class method the per-method contracts name)."""
from glom.matching import And, Or, Not


def inv(x):
    return ~x


def conj(x, y):
    return x & y


def disj(x, y):
    return x | y


def agg_step(spec, target, tree):
    """one Group-mode aggregation step of a reduction spec, by ordinary method dispatch on the spec's class"""
    return spec._agg(target, tree)


def fold_all(spec, iterator):
    """the plain-mode fold of a reduction spec, by ordinary method dispatch on the spec's class"""
    return spec._fold(iterator)
