"""Lemma subjects: the Python operators applied to matching objects, resolved by ordinary method dispatch on the object's class (so an
operator method added to or overridden in a subclass is what gets executed, not the base-class method the per-method contracts name)."""
from glom.matching import And, Or, Not


def inv(x):
    return ~x


def conj(x, y):
    return x & y


def disj(x, y):
    return x | y
