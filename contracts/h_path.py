"""Spec helpers for Path / T contracts (pure; parsed by PyVC and also importable natively)."""


def nsteps(p):
    return (len(p.path_t.__ops__) - 1) // 2


def norm(i, n):
    return i if i >= 0 else n + i


def ops(p):
    return p.path_t.__ops__


def pickle_roundtrip(x, fresh):
    """__setstate__(__getstate__(x)) on a fresh T object: returns the restored ops (uses the real methods)"""
    state = x.__getstate__()
    fresh.__setstate__(state)
    return fresh.__ops__
