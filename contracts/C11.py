"""C11 — assign obeys the lens laws and fails atomically."""
from pyvc.verify import Post, Case, Equiv
from contracts import extra
from contracts import common, C12

PROPERTY = 'C11'
REF_MODULES = ['ref_mut', 'h_path', 'ref_extra', 'ref_core', 'ref_match', 'ref_reduce', 'ref_auto', 'ref_t', 'ref_registry']
TS = C12.TS


def config(cfg):
    common.apply(cfg)
    cfg.summaries['mutation._apply_for_each'] = 'apply_for_each'
    cfg.summaries['mutation.Assign'] = 'new_assign'
    cfg.summaries['core._assign_op'] = 'assign_op'
    cfg.field_types.update({'mutation.Assign.missing': 'ref', 'mutation.Assign.val': 'ref'})


def _nosum(*names):
    def f(cfg):
        for n in names:
            cfg.summaries.pop(n, None)
    return f


def contracts():
    cs = []
    cs.append(Equiv('mutation.Assign.glomit', 'ref_mut.assign_ref', args={'self': 'inst:mutation.Assign', 'target': 'ref', 'scope': 'chainmap'},
                    requires=TS + ['len(self.path.path_t.__ops__) % 2 == 1', 'len(self._orig_path.path_t.__ops__) % 2 == 1'],
                    cases=[('no-missing', ['self.missing is None']), ('missing', ['self.missing is not None', 'callable(self.missing)'])]))
    cs.append(Equiv('core._assign_op', 'ref_mut.assign_op_ref', config=_nosum('core._assign_op'),
                    args={'dest': 'ref', 'op': 'str', 'arg': 'ref', 'val': 'ref', 'path': 'ref', 'scope': 'chainmap'},
                    cases=[('[', ["op == '['"]), ('.', ["op == '.'"]), ('P', ["op == 'P'"]), ('other', ["op != '['", "op != '.'", "op != 'P'"])], raise_only_cases=['other']))
    cs.append(Equiv('mutation._set_sequence_item', 'ref_mut.set_seq_ref', args={'target': 'ref', 'idx': 'ref', 'val': 'ref'}))
    cs.append(Equiv('mutation._apply_for_each', 'ref_mut.apply_for_each_ref', config=_nosum('mutation._apply_for_each'),
                    args={'func': 'ref', 'path': 'inst:core.Path', 'val': 'ref'},
                    loops={1: dict(vars=[('val', 'ref')], ref_vars=[('val', 'ref')]),
                           2: dict(vars=[('func', 'ref')], ref_vars=[('func', 'ref')])}))
    pass
    cs += common.shared(extra, ['mutation.Assign.__init__', 'mutation.assign', 'mutation._assign_autodiscover'])
    # the assigned value is arg_val(target, val, scope) evaluated with a fresh per-call valuator (shared with C08); how many wildcard
    # layers a destination has is TType.__stars__ (shared with C14 through contracts/extra.py)
    from contracts import C08, X_ctor
    cs += common.shared(C08, ['core.arg_val', 'core._ArgValuator.mode'])
    cs += common.shared(X_ctor, ['core._ArgValuator.__init__'])
    cs += common.shared(extra, ['core.TType.__stars__'])
    # the destination: the text is split into segments by Path.from_text and walked by _t_eval (wildcard expansion included)
    from contracts import C02
    cs += common.shared(C02, ['core._t_eval'])
    cs += common.shared(extra, ['core.Path.from_text'])
    # how a destination Path is built from parts, and which handler the registry resolves (incl. after later registrations)
    from contracts import C18, C13
    cs += common.shared(C18, ['core.Path.__init__'])
    cs += common.shared(C13, ['core.TargetRegistry.get_handler', 'core.TargetRegistry.get_type_map', 'core.TargetRegistry._get_closest_type', 'core.TargetRegistry.register'])
    return cs


from contracts import native as _n


def _assign_cases():
    targets = ["{'a': {'b': 1}}", "{'a': [1, 2, 3]}", "type('O', (), {})()", "{}", "{'a': {}}", "{'a': (1, 2)}", "{'a': None}", "[[1], [2]]",
               "{'a': [{'b': 1}, {'b': 2}, {}]}"]
    paths = ["'a.b'", "'a.b.c'", "'a.b.c.d'", "'a.1'", "'a.9'", "T['a']['b']", "T['a'][1]", "T.a", "T.a.b", "Path('a', 'b')", "Path(0, 0)", "'a.*.b'", "'x.y.z'",
             "S['k']", "T['a']['x']['y']"]
    vals = ["1", "T['a']", "Spec(Val(T))", "Val('lit')", "[T['a']]", "{'k': T}", "Spec('a')"]
    for t in targets:
        for p in paths:
            for v in vals:
                for m in ('', ', missing=dict', ', missing=list', ", missing=lambda: type('N', (), {})()"):
                    yield t, 'Assign(%s, %s%s)' % (p, v, m)


NATIVE = {
    'mutation.Assign.glomit': _n.differ('mutation.Assign.glomit', 'ref_mut.assign_ref', _assign_cases, mode='method'),
    'mutation._apply_for_each': C12.NATIVE['mutation._apply_for_each'],
}
from contracts import extra as _extra
from contracts import extra as _extra2
from contracts import C01 as _C01
BOUNDED = [_extra.bounded_from_text, _extra2.bounded_path_composition, _C01.bounded_registered_access]
ASSUMPTIONS = [
    'G-contract for fetching the parent / evaluating the nested Assign; opaque user primitives obj[k] = v / setattr / registered assign handler / missing()',
    'atomicity: on every path the stores into pre-existing objects are the _assign_op calls made through _apply_for_each; for a wildcard-free path that is one store, '
    'performed last (heap threading of the relational proof), so any earlier failure leaves the target as it was, given pure factories / value specs (hypothesis of the statement)',
    'Assign.__init__ path splitting is exercised by the bounded differential replay only',
]
TRUSTED = ['reference semantics contracts/ref_mut.py']
EXPLANATION = ('Assign.glomit (with and without missing=), _assign_op, _set_sequence_item and _apply_for_each are proved equal to reference semantics: value evaluated '
               'once, parent fetched, missing tail built before a single attaching store, the very target returned.')

CANARIES = [
    {'name': 'Assign: value re-evaluated in the missing branch', 'module': 'mutation', 'only': ['mutation.Assign.glomit'], 'expect': ['mutation.Assign.glomit'],
     'old': "Assign(remaining_path, Val(val), missing=self.missing)", 'new': "Assign(remaining_path, val, missing=self.missing)"},
    {'name': 'Assign: returns the destination', 'module': 'mutation', 'only': ['mutation.Assign.glomit'], 'expect': ['mutation.Assign.glomit'],
     'old': "        _apply_for_each(_apply, path, dest)\n\n        return target", 'new': "        _apply_for_each(_apply, path, dest)\n\n        return dest"},
    {'name': '_assign_op: handler errors not wrapped', 'module': 'core', 'only': ['core._assign_op'], 'expect': ['core._assign_op'],
     'old': "        try:\n            _assign(dest, arg, val)\n        except Exception as e:\n            raise PathAssignError(e, path, arg)", 'new': "        _assign(dest, arg, val)"},
]
