"""C12 — delete removes exactly the addressed element, or nothing."""
from pyvc.verify import Post, Case, Equiv
from contracts import extra
from contracts import common

PROPERTY = 'C12'
REF_MODULES = ['ref_mut', 'h_path', 'ref_extra', 'ref_core', 'ref_t', 'ref_registry']
TS = ['len(S.__ops__) == 1', 'S.__ops__[0] is S', 'len(T.__ops__) == 1', 'T.__ops__[0] is T']


def config(cfg):
    common.apply(cfg)
    cfg.summaries['mutation.Delete._del_one'] = 'del_one'
    cfg.summaries['mutation._apply_for_each'] = 'apply_for_each'


def _nosum(*names):
    def f(cfg):
        for n in names:
            cfg.summaries.pop(n, None)
    return f


def contracts():
    cs = []
    cs.append(Equiv('mutation.Delete._del_one', 'ref_mut.del_one_ref', config=_nosum('mutation.Delete._del_one'),
                    args={'self': 'inst:mutation.Delete', 'dest': 'ref', 'op': 'str', 'arg': 'ref', 'scope': 'chainmap'},
                    cases=[('[', ["op == '['"]), ('.', ["op == '.'"]), ('P', ["op == 'P'"]), ('other', ["op != '['", "op != '.'", "op != 'P'"])]))
    cs.append(Equiv('mutation.Delete.glomit', 'ref_mut.delete_ref', args={'self': 'inst:mutation.Delete', 'target': 'ref', 'scope': 'chainmap'},
                    requires=TS + ['len(self.path.path_t.__ops__) % 2 == 1']))
    cs.append(Equiv('mutation._apply_for_each', 'ref_mut.apply_for_each_ref', config=_nosum('mutation._apply_for_each'), args={'func': 'ref', 'path': 'inst:core.Path', 'val': 'ref'},
                    loops={1: dict(vars=[('val', 'ref')], ref_vars=[('val', 'ref')]),
                           2: dict(vars=[('func', 'ref')], ref_vars=[('func', 'ref')])}))
    cs.append(Equiv('mutation._del_sequence_item', 'ref_mut.del_seq_ref', args={'target': 'ref', 'idx': 'ref'}))
    pass
    cs += common.shared(extra, ['mutation.Delete.__init__', 'mutation.delete', 'mutation._delete_autodiscover'])
    # the destination: the text is split into segments by Path.from_text and walked by _t_eval (wildcard expansion included)
    from contracts import C02
    cs += common.shared(C02, ['core._t_eval'])
    cs += common.shared(extra, ['core.Path.from_text', 'core.TType.__stars__'])
    # how a destination Path is built from parts, and which handler the registry resolves (incl. after later registrations)
    from contracts import C18, C13
    cs += common.shared(C18, ['core.Path.__init__'])
    cs += common.shared(C13, ['core.TargetRegistry.get_handler', 'core.TargetRegistry.get_type_map', 'core.TargetRegistry._get_closest_type', 'core.TargetRegistry.register'])
    return cs


from contracts import native as _n


def _del_cases():
    for t in ["{'a': {'b': 1, 'c': 2}}", "{'a': [1, 2, 3]}", "type('O', (), {})()", "[[1, 2], [3]]", "{'a': 1}", "(1, 2)", "{'a': None}"]:
        for p in ("'a.b'", "'a.zz'", "'zz.b'", "'a.1'", "'a.9'", "T['a']['b']", "T['a']['zz']", "T['a'][7]", "T['zz']['b']", "T.a", "T.zz", "T.a.zz",
                  "Path('a', 'b')", "Path('a', 'zz')", "Path(0, 1)", "Path(0, 9)", "T[0][1]", "T[0][9]"):
            for ig in ('False', 'True'):
                yield t, 'Delete(%s, ignore_missing=%s)' % (p, ig)
    deep = "{'a': [{'b': [{'c': [{'d': 1, 'e': 2}, {'d': 3}]}, {'c': [{'d': 4}]}]}, {'b': [{'c': [{'d': 5, 'e': 6}]}]}]}"
    for p in ("'a.*.b'", "'a.*.b.*.c'", "'a.*.b.*.c.*.d'", "'a.*.b.*.c.*.e'", "'**.d'", "'a.*.zz'"):
        for ig in ('False', 'True'):
            yield deep, 'Delete(%s, ignore_missing=%s)' % (p, ig)
    for t in ("{'x': [10, 20, 30]}", "{'x': (1, 2)}"):
        for i in range(-8, 6):
            yield t, "Delete('x.%d')" % i
            yield t, "Delete(Path('x', %d), ignore_missing=True)" % i


def _apply_cases():
    vals = {0: ["1", "[1, 2]"], 1: ["[1, 2, 3]", "[]"], 2: ["[[1, 2], [3]]", "[[], []]"], 3: ["[[[1], [2, 3]], [[4]]]", "[[[]]]"],
            4: ["[[[[1, 2]], [[3]]], [[[4]]]]"]}
    for k, vs in vals.items():
        for v in vs:
            yield v, "Path.from_text(%r)" % '.'.join(['a'] + ['*'] * k)
            if k:
                yield v, "Path.from_text(%r)" % '.'.join(['**'] + ['b', '*'] * (k - 1))


NATIVE = {
    'mutation._apply_for_each': _n.differ('mutation._apply_for_each', 'ref_mut.apply_for_each_ref', _apply_cases, mode='apply'),
    'mutation.Delete': _n.differ('mutation.Delete.glomit', 'ref_mut.delete_ref', _del_cases, mode='method'),
}
from contracts import extra as _extra
from contracts import extra as _extra2
from contracts import C01 as _C01
def bounded_wildcard_delete(tier, seed):
    """delete through wildcards acts at EVERY match: '*.tmp' removes 'tmp' from every child container (mapping values, sequence items,
    attribute values -- underscore-named attributes included), '**.tmp' from every descendant container (equal-but-distinct containers are
    distinct matches); everything else is unchanged and the same object is returned.  Oracle: copy.deepcopy + a hand-written walk.
    Bound: the structure catalogue below x 2 paths x {delete(), Delete spec}."""
    import copy
    import glom as G
    class Obj:
        def __init__(self, **kw):
            self.__dict__.update(kw)
        def __eq__(self, other):
            return type(other) is type(self) and vars(self) == vars(other)
    def structures():
        yield 'dict-of-dicts', {'l': {'tmp': 1, 'keep': 2}, 'r': {'tmp': 3, 'keep': 4}}
        yield 'list-of-dicts', [{'tmp': 1, 'keep': 2}, {'tmp': 3}, {'tmp': 5, 'x': [1]}]
        yield 'object-underscore', Obj(left={'tmp': 1, 'keep': 2}, _spare={'tmp': 5, 'keep': 6}, __m={'tmp': 7})
        yield 'equal-distinct', {'east': {'cfg': {'tmp': 1, 'keep': 2}}, 'west': {'cfg': {'tmp': 1, 'keep': 2}}}
        yield 'nested-objects', {'a': Obj(cfg={'tmp': 1}, _cfg={'tmp': 2}), 'b': [{'tmp': 3}, {'tmp': 3}]}
    def kids(v):
        if isinstance(v, dict):
            return list(v.values())
        if isinstance(v, (list, tuple)):
            return list(v)
        if isinstance(v, Obj):
            return list(vars(v).values())
        return []
    def strip(v, deep, top=True):
        """the expected effect: 'tmp' removed from the children (deep: from every proper descendant) that are dicts holding it"""
        for ch in kids(v):
            if isinstance(ch, dict) and 'tmp' in ch:
                del ch['tmp']
            if deep:
                strip(ch, True, False)
    cases, failures = 0, []
    for name, _ in structures():
        for path, deep in (('*.tmp', False), ('**.tmp', True)):
            for how in ('delete', 'Delete'):
                s = dict(structures())[name]
                exp = copy.deepcopy(s)
                strip(exp, deep)
                if deep and isinstance(exp, dict):
                    exp.pop('tmp', None)
                cases += 1
                try:
                    got = G.delete(s, path, ignore_missing=True) if how == 'delete' else G.glom(s, G.Delete(path, ignore_missing=True))
                except Exception as e:
                    failures.append({'key': 'wildcard-delete', 'input': '%s / %s / %s' % (name, path, how), 'observed': repr(e)[:150], 'expected': repr(exp)[:150], 'replay_code': None})
                    continue
                if got is not s or s != exp:
                    failures.append({'key': 'wildcard-delete', 'input': '%s / %s / %s' % (name, path, how), 'observed': repr(vars(s) if isinstance(s, Obj) else s)[:150],
                                     'expected': repr(vars(exp) if isinstance(exp, Obj) else exp)[:150], 'replay_code': None})
    return {'name': 'delete through wildcards vs deepcopy + hand-written walk', 'label': 'bounded', 'cases': cases, 'bound': '5 structures x 2 paths x 2 entry points',
            'failures': failures}


BOUNDED = [_extra.bounded_from_text, _extra2.bounded_path_composition, _C01.bounded_registered_access, bounded_wildcard_delete]
ASSUMPTIONS = [
    'G-contract for fetching the parent; opaque user primitives del obj[k] / delattr / registered delete handler (each may raise anything)',
    'Delete.glomit is proved for wildcard-free paths; the wildcard broadcast is the separate contract on _apply_for_each',
    'T.__ops__ == (T,), S.__ops__ == (S,) (module initialisation, checked natively at import)',
]
TRUSTED = ['reference semantics contracts/ref_mut.py']
EXPLANATION = 'Delete._del_one (per addressing style), Delete.glomit (wildcard-free) and _apply_for_each are proved equal to reference semantics.'

CANARIES = [
    {'name': 'del_one: ignore_missing inverted', 'module': 'mutation', 'only': ['mutation.Delete._del_one'], 'expect': ['mutation.Delete._del_one'],
     'old': "            except AttributeError as e:\n                if not self.ignore_missing:", 'new': "            except AttributeError as e:\n                if self.ignore_missing:"},
    {'name': 'Delete.glomit: parent errors swallowed without the flag', 'module': 'mutation', 'only': ['mutation.Delete.glomit'], 'expect': ['mutation.Delete.glomit'],
     'old': "        except PathAccessError as pae:\n            if not self.ignore_missing:\n                raise\n        else:\n            _apply_for_each(lambda dest: self._del_one",
     'new': "        except PathAccessError as pae:\n            pass\n        else:\n            _apply_for_each(lambda dest: self._del_one"},
    {'name': 'del_one: KeyError no longer translated', 'module': 'mutation', 'only': ['mutation.Delete._del_one'], 'expect': ['mutation.Delete._del_one'],
     'old': "            except (KeyError, IndexError) as e:", 'new': "            except IndexError as e:"},
]
