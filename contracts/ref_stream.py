"""Reference semantics of Iter / First / Invoke builders (C17), written from the property statement."""
try:
    assume
except NameError:
    def assume(cond):
        return None
from itertools import islice, dropwhile, takewhile, chain
from functools import partial
from boltons.iterutils import split_iter, chunked_iter, windowed_iter, unique_iter, first
from glom.core import glom, T, S, SKIP, STOP, _MISSING, Path, TargetRegistry, Call, Spec, Pipe, Invoke
from glom.streaming import Iter, First
from glom.matching import Check


def iterate_ref(self, target, scope):
    """the base stream: one source item is pulled, evaluated and (unless SKIP) yielded before the next one is pulled; the sentinel or STOP
    ends the stream without pulling further"""
    iterate = scope[TargetRegistry].get_handler('iterate', target, path=scope[Path])
    try:
        iterator = iterate(target)
    except Exception as e:
        raise TypeError('failed to iterate on instance of type %r at %r (got %r)' % (target.__class__.__name__, Path(*scope[Path]), e))
    base_path = scope[Path]
    for i, t in enumerate(iterator):
        scope[Path] = base_path + [i]
        if self.subspec is T:
            yld = t
        else:
            yld = scope[glom](t, self.subspec, scope)
        if yld is SKIP:
            continue
        if yld is self.sentinel or yld is STOP:
            return
        yield yld
    return


def glomit_ref(self, target, scope):
    """the callbacks are applied to the base stream in the order the methods were chained (the stack is stored newest first)"""
    stream = self._iterate(target, scope)
    for _, _, callback in reversed(self._iter_stack):
        stream = callback(stream, scope)
    return iter(stream)


def add_op_ref(self, opname, args, callback):
    """a NEW spec of the same type whose stack is a NEW list: the new entry followed by the old entries; self is not touched.  The new spec is
    the old pipeline plus one stage, so it keeps reading the source the same way: same sub-spec AND same sentinel ("honouring ... the sentinel")"""
    return type(self)(subspec=self.subspec, _iter_stack=[(opname, args, callback)] + self._iter_stack, sentinel=self.sentinel)


# -- every stage is literally the corresponding itertools / boltons call (so the pipeline inherits its laziness) --------------------
def stage_impl(kind, p1, p2, target, scope):
    it = Iter()
    if kind == 'map':
        it = it.map(p1)
    elif kind == 'filter':
        it = it.filter(p1)
    elif kind == 'chunked':
        it = it.chunked(p1)
    elif kind == 'chunked-fill':
        it = it.chunked(p1, p2)
    elif kind == 'windowed':
        it = it.windowed(p1)
    elif kind == 'split':
        it = it.split(p1, p2)
    elif kind == 'flatten':
        it = it.flatten()
    elif kind == 'unique':
        it = it.unique(p1)
    elif kind == 'limit':
        it = it.limit(p1)
    elif kind == 'takewhile':
        it = it.takewhile(p1)
    elif kind == 'dropwhile':
        it = it.dropwhile(p1)
    elif kind == 'slice2':
        it = it.slice(p1, p2)
    return (it, it.glomit(target, scope))


def stage_ref(kind, p1, p2, target, scope):
    it = Iter()
    if kind == 'map':
        it = it.map(p1)
        fn = lambda it, scope: map(lambda t: scope[glom](t, p1, scope), it)
    elif kind == 'filter':
        it = it.filter(p1)
        check = p1 if isinstance(p1, Check) else Check(p1, default=SKIP)
        fn = lambda it, scope: filter(lambda t: scope[glom](t, check, scope) is not SKIP, it)
    elif kind == 'chunked':
        kw = {'size': p1}
        it = it.chunked(p1)
        fn = lambda it, scope: chunked_iter(it, **kw)
    elif kind == 'chunked-fill':
        kw = {'size': p1}
        if p2 is not _MISSING:
            kw['fill'] = p2
        it = it.chunked(p1, p2)
        fn = lambda it, scope: chunked_iter(it, **kw)
    elif kind == 'windowed':
        it = it.windowed(p1)
        fn = lambda it, scope: windowed_iter(it, p1)
    elif kind == 'split':
        it = it.split(p1, p2)
        fn = lambda it, scope: split_iter(it, sep=p1, maxsplit=p2)
    elif kind == 'flatten':
        it = it.flatten()
        fn = lambda it, scope: chain.from_iterable(it)
    elif kind == 'unique':
        it = it.unique(p1)
        fn = lambda it, scope: unique_iter(it, key=lambda t: scope[glom](t, p1, scope))
    elif kind == 'limit':
        it = it.limit(p1)
        fn = lambda it, scope: islice(it, p1)
    elif kind == 'takewhile':
        it = it.takewhile(p1)
        fn = lambda it, scope: takewhile(lambda t: scope[glom](t, p1, scope), it)
    elif kind == 'dropwhile':
        it = it.dropwhile(p1)
        fn = lambda it, scope: dropwhile(lambda t: scope[glom](t, p1, scope), it)
    elif kind == 'slice2':
        it = it.slice(p1, p2)
        fn = lambda it, scope: islice(it, p1, p2)
    return (it, iter(fn(it._iterate(target, scope), scope)))


def order_impl(a, b, target, scope):
    it = Iter().map(a).filter(b)
    return (it, it.glomit(target, scope))


def order_ref(a, b, target, scope):
    """two chained stages: the first chained is applied first"""
    it = Iter().map(a).filter(b)
    check = b if isinstance(b, Check) else Check(b, default=SKIP)
    mapped = map(lambda t: scope[glom](t, a, scope), it._iterate(target, scope))
    return (it, iter(filter(lambda t: scope[glom](t, check, scope) is not SKIP, mapped)))


def invoke_constants_ref(self, *a, **kw):
    ret = self.__class__(self.func)
    ret._args = self._args + ('C', a, kw)
    fresh = dict(self._cur_kwargs)
    fresh.update({k: kw for k, _ in kw.items()})
    ret._cur_kwargs = fresh
    return ret


def invoke_specs_ref(self, *a, **kw):
    """a NEW Invoke: args tuple extended, keyword registry COPIED then updated; self is not touched"""
    ret = self.__class__(self.func)
    ret._args = self._args + ('S', a, kw)
    fresh = dict(self._cur_kwargs)
    fresh.update({k: kw for k, _ in kw.items()})
    ret._cur_kwargs = fresh
    return ret


def invoke_star_ref(self, args=None, kwargs=None):
    if args is None and kwargs is None:
        raise TypeError('expected one or both of args/kwargs to be passed')
    ret = self.__class__(self.func)
    ret._args = self._args + ('*', args, kwargs)
    ret._cur_kwargs = dict(self._cur_kwargs)
    return ret


def iter_all_ref(self):
    return Pipe(self, list)


def iter_first_ref(self, key=T, default=None):
    return (self, First(key=key, default=default))


def first_init_ref(self, key=T, default=None):
    """First(key, default): the first item of the target whose key spec (evaluated with the current scope) is truthy, else default --
    built as a Call of boltons' first() over the target itself"""
    self._spec = key
    self._default = default
    spec_glom = Spec(Call(partial, args=(Spec(self._spec).glom,), kwargs={'scope': S}))
    self._first = Call(first, args=(T,), kwargs={'default': default, 'key': spec_glom})


def first_glomit_ref(self, target, scope):
    return self._first.glomit(target, scope)
