"""C04 — exceptions keep their class; glom failures are GlomErrors; default is selective."""
from pyvc.verify import Post, Case, Equiv, NativeFacts
from contracts import common

PROPERTY = 'C04'
REF_MODULES = ['ref_core', 'ref_t', 'h_path', 'ref_extra', 'ref_registry', 'ref_match', 'ref_reduce', 'ref_auto', 'ref_err']


def config(cfg):
    import z3
    from pyvc.engine import SV
    common.apply(cfg)
    cfg.summaries['core.ScopeVars'] = 'new_scopevars'
    cfg.summaries['core.GlomError.wrap'] = 'glomerror_wrap'
    cfg.opaque_globals['GLOM_DEBUG'] = lambda st: SV('bool', z3.Bool('glob_GLOM_DEBUG'))


def _nosum(*names):
    def f(cfg):
        for n in names:
            cfg.summaries.pop(n, None)
    return f


KW = [('none', 'kw:'), ('default', 'kw:default'), ('skip_exc', 'kw:skip_exc'), ('default+skip_exc', 'kw:default,skip_exc'),
      ('debug', 'kw:glom_debug'), ('default+debug', 'kw:default,glom_debug'), ('scope', 'kw:scope'), ('path+inspector', 'kw:path,inspector'),
      ('bogus', 'kw:bogus'), ('all', 'kw:default,skip_exc,glom_debug,scope')]


def contracts():
    cs = []
    for name, kw in KW:
        cs.append(Equiv('core.glom', 'ref_core.glom_top_ref', label='core.glom[%s]' % name, config=_nosum('core.glom'),
                        args={'target': 'ref', 'spec': 'ref', 'kwargs': kw}, raise_only=(name == 'bogus')))
    cs.append(Equiv('core.GlomError.wrap', 'ref_core.wrap_ref', config=_nosum('core.GlomError.wrap'), args={'cls': 'class:core.GlomError', 'exc': 'ref'}))
    from contracts import raise_scan

    class _Scan(NativeFacts):
        def run(self, v):
            self.items = raise_scan.items(v.repo)
            NativeFacts.run(self, v)
    cs.append(_Scan('C04.raise-sites', [], func='every raise statement in glom/*.py'))

    class _ExceptScan(NativeFacts):
        def run(self, v):
            self.items = raise_scan.except_items(v.repo)
            NativeFacts.run(self, v)
    cs.append(_ExceptScan('C04.except-sites', [], func='every except clause in glom/*.py'))
    # the T-expression walk is where lookup failures become PathAccessError and everything else passes through (contract shared with C02)
    from contracts import C02
    cs += common.shared(C02, ['core._t_eval'])
    cs.append(NativeFacts('C04.class-facts', [
        (n + '<=GlomError', 'issubclass(%s, GlomError)' % n, (lambda f, n=n: f.issub(n, 'core.GlomError')))
        for n in ('core.PathAccessError', 'core.PathAssignError', 'core.CoalesceError', 'core.BadSpec', 'core.UnregisteredTarget', 'matching.MatchError',
                  'matching.TypeMatchError', 'matching.CheckError', 'mutation.PathDeleteError', 'reduction.FoldError')] + [
        ('BadSpec<=TypeError', 'issubclass(BadSpec, TypeError)', lambda f: f.issub('core.BadSpec', 'TypeError')),
        ('PathDeleteError<=PathAssignError', 'issubclass(PathDeleteError, PathAssignError)', lambda f: f.issub('mutation.PathDeleteError', 'core.PathAssignError')),
    ], func='exception class statements'))
    cs.append(Equiv('matching.TypeMatchError.__copy__', 'ref_core.tme_copy_ref', args={'self': 'inst:matching.TypeMatchError'}, requires=['len(self.args) == 3']))
    # "with the same args": the copy that leaves glom() has the args of the original, for the one GlomError class with its own __copy__
    cs.append(Post('matching.TypeMatchError.__copy__', label='matching.TypeMatchError.__copy__[args]', cases=[
        Case('any', args={'self': 'inst:matching.TypeMatchError'}, requires=['len(self.args) == 3'],
             ensures=['type(result) is TypeMatchError', 'len(result.args) == 3', 'result.args[1] is self.args[1]', 'result.args[2] is self.args[2]'])]))
    from contracts import X_ctor
    cs += common.shared(X_ctor, ['core.GlomError._set_wrapped'])
    cs += common.shared(X_ctor, ['core.UnregisteredTarget.__init__', 'matching.TypeMatchError.__init__'])
    # the Glommer entry point forwards default / skip_exc unchanged; messages of glom's own errors are rendered eagerly by some callers
    from contracts import C13, C08, C03, C05
    cs += common.shared(C13, ['core.Glommer.glom'])
    cs += common.shared(C08, ['core.arg_val', 'core._ArgValuator.mode'])
    cs += common.shared(C03, ['core._has_callable_glomit'])
    cs += common.shared(C05, ['core.GlomError._finalize'])
    cs += common.shared(X_ctor, ['core.UnregisteredTarget.get_message', 'core.CoalesceError.get_message', 'matching.CheckError.get_message',
                                 'core.PathAssignError.get_message', 'mutation.PathDeleteError.get_message'])
    return cs


from contracts import native as _n
_EXC = '''
class UserErr(Exception):
    def __init__(self, msg, code=3):
        super().__init__(msg); self.code = code
class KwErr(Exception):
    def __init__(self, *, detail):
        super().__init__(detail)
class ArityErr(Exception):
    def __init__(self, a, b):
        super().__init__('fixed')
class MyGlomErr(GlomError):
    def __init__(self, a, b):
        super().__init__('msg')
class Falsy(Exception):
    def __bool__(self):
        return False
class Base(BaseException):
    pass
def boom(exc):
    def f(t):
        raise exc
    f.__name__ = 'boom_' + type(exc).__name__
    return f
'''
_RAISERS = ["boom(KeyError('k'))", "boom(UserErr('m', 5))", "boom(KwErr(detail='d'))", "boom(ArityErr(1, 2))", "boom(MyGlomErr(1, 2))", "boom(Falsy('x'))",
            "boom(Base('b'))", "'missing'", "T['zz']", "Coalesce('a', 'b')", "Match(int)", "Check(type=int)", "boom(ValueError('v'))", "(T['x'], boom(IndexError(3)))",
            "boom(ZeroDivisionError())", "Sum()", "len"]
_KWS = ["{}", "{'default': 'D'}", "{'default': None, 'skip_exc': KeyError}", "{'skip_exc': (ValueError, UserErr)}", "{'glom_debug': True}",
        "{'default': T, 'skip_exc': Exception}", "{'default': 'D', 'glom_debug': True}", "{'scope': {'k': 1}}", "{'skip_exc': Base, 'default': 0}", "{'bogus': 1}"]


def _top_outcome(fn, target, spec, kw):
    try:
        v = fn(target, spec, **kw)
        return ('ok', type(v).__name__, repr(v), v is kw.get('default', object()))
    except BaseException as e:
        return ('exc', [c.__name__ for c in type(e).__mro__ if not c.__name__.startswith('GlomError.wrap')][:4], repr(getattr(e, 'args', None))[:80],
                isinstance(e, __import__('glom').GlomError))


def _native_top(name, model, count=None):
    import glom
    from contracts import ref_core
    env = dict(vars(glom)); exec(_EXC, env)
    for r in _RAISERS:
        for k in _KWS:
            if count is not None:
                count[0] += 1
            a = _top_outcome(glom.glom, {'x': 1}, eval(r, dict(env)), eval(k, dict(env)))
            b = _top_outcome(ref_core.glom_top_ref, {'x': 1}, eval(r, dict(env)), eval(k, dict(env)))
            if a != b:
                code = ("import glom\nfrom glom import *\nfrom contracts import ref_core\nfrom contracts.C04 import _top_outcome, _EXC\nenv = dict(vars(glom)); exec(_EXC, env)\n"
                        "a = _top_outcome(glom.glom, {'x': 1}, eval(%r, dict(env)), eval(%r, dict(env)))\nb = _top_outcome(ref_core.glom_top_ref, {'x': 1}, eval(%r, dict(env)), eval(%r, dict(env)))\n"
                        "print('real code      :', a)\nprint('reference says :', b)\nassert a == b\n" % (r, k, r, k))
                return {'input': {'spec': r, 'kwargs': k}, 'observed': repr(a), 'expected': repr(b), 'replay_code': code}
    return None


def _run_top():
    n = [0]
    return n[0] or 0, _native_top('(differential replay)', {}, n) if True else None


def _mk():
    def find(name, model, count=None):
        return _native_top(name, model, count)
    def run():
        n = [0]
        w = _native_top('(differential replay)', {}, n)
        return n[0], w
    find.run = run
    find.real_name, find.ref_name = 'core.glom', 'ref_core.glom_top_ref'
    return find


NATIVE = {'core.glom': _mk()}

def bounded_entry_points(tier, seed):
    """the statement on the three entry points glom(), Glommer().glom() and Spec(...).glom(): for a catalogue of raised exceptions (builtin, user,
    GlomError subclasses with plain / extra-argument / argument-transforming constructors, BaseException-only) x keyword shapes (none, default,
    skip_exc, both): the class of what leaves is the class raised, args are equal, GlomError-ness as stated, default returned exactly for
    errors matching skip_exc (GlomError when only default is given; None when only skip_exc is given) -- and the entry points agree."""
    import glom
    from glom import glom as G, Glommer, Spec, GlomError
    class Plain(GlomError):
        pass
    class Extra(GlomError):
        def __init__(self, a, b):
            super().__init__(a, b)
    class Transforming(GlomError):
        def __init__(self, code):
            super().__init__('code %s' % code)
    class UserErr(Exception):
        pass
    class Abort(BaseException):
        pass
    def raiser(make):
        def f(t):
            raise make()
        return f
    makers = [('ValueError', lambda: ValueError('v', 1)), ('KeyError', lambda: KeyError('k')), ('UserErr', lambda: UserErr('u')), ('Plain', lambda: Plain('p', 2)),
              ('Extra', lambda: Extra(1, 2)), ('Transforming', lambda: Transforming(5)), ('Abort', lambda: Abort('stop')), ('ZeroDivisionError', lambda: ZeroDivisionError())]
    sentinel = object()
    shapes = [('none', {}), ('default', {'default': sentinel}), ('skip_exc', {'skip_exc': (ValueError, Abort)}), ('both', {'default': sentinel, 'skip_exc': (KeyError, Plain)}),
              ('skip_exc-only-class', {'skip_exc': ZeroDivisionError})]
    def run(call, spec, kw):
        try:
            return ('ok', call({'a': 1}, spec, **kw))
        except BaseException as e:
            return ('exc', type(e), e.args, isinstance(e, GlomError))
    cases, failures = 0, []
    for name, make in makers:
        orig = make()
        for sname, kw in shapes:
            spec = ('a', raiser(make))
            outs = {'glom': run(G, spec, kw), 'Glommer.glom': run(Glommer().glom, spec, kw), 'Spec.glom': run(lambda t, s, **k: Spec(s).glom(t, **k), spec, kw)}
            # expectation from the statement
            skip = kw.get('skip_exc', GlomError if 'default' in kw else ())
            dflt = kw.get('default', None if 'skip_exc' in kw else sentinel)
            replaced = ('default' in kw or 'skip_exc' in kw) and isinstance(orig, skip)
            for entry, got in outs.items():
                cases += 1
                if replaced:
                    ok = got == ('ok', dflt if ('default' in kw or 'skip_exc' in kw) else None)
                else:
                    ok = got[0] == 'exc' and issubclass(got[1], type(orig)) and got[2] == orig.args and (got[3] or not isinstance(orig, Exception) or name == 'Abort')
                if not ok and len(failures) < 3:
                    failures.append({'key': 'entry-points', 'input': {'raised': name, 'keywords': sname, 'entry': entry}, 'observed': repr(got)[:200],
                                     'expected': ('the default' if replaced else 'an instance of %s with args %r' % (name, orig.args)), 'replay_code': None})
    return {'name': 'exception fidelity and default selectivity on the three entry points', 'label': 'bounded', 'cases': cases,
            'bound': '8 raised exceptions x 5 keyword shapes x 3 entry points', 'failures': failures}


BOUNDED = [bounded_entry_points]

ASSUMPTIONS = [
    '_glom (the evaluation) is an uninterpreted summary here; it re-raises the very exception object (its contract is proved in C08/C05)',
    'copy.copy(e) / type(name, bases, {}) / cls(*args) are opaque library primitives that may raise; GlomError._finalize / _set_wrapped are opaque method calls on the error object',
    'GLOM_DEBUG (environment default of glom_debug) is a symbolic boolean',
    'raise-site table: builtin classes raised by glom code outside evaluation-time failure detection (argument validation in constructors etc.) are the recorded list contracts/raise_sites_allowed.json; a new site fails the scan',
]
TRUSTED = ['reference semantics contracts/ref_core.py']
EXPLANATION = ('glom() is proved equal to its reference for ten keyword shapes (default / skip_exc / glom_debug / scope / path / inspector / unknown keyword): '
               'default object itself returned exactly for errors matching skip_exc, debug re-raises the original, GlomErrors leave as a copy (or themselves), others as '
               'GlomError.wrap (or themselves), BaseExceptions untouched; GlomError.wrap and TypeMatchError.__copy__ are under contract; every raise statement of the package is scanned.')
CANARIES = [
    {'name': 'glom: default applied to every error', 'module': 'core', 'only': ['core.glom[default]'], 'expect': ['core.glom[default]'],
     'old': "        except skip_exc:\n            if default is _MISSING:", 'new': "        except Exception:\n            if default is _MISSING:"},
    {'name': 'glom: debug flag ignored', 'module': 'core', 'only': ['core.glom[debug]'], 'expect': ['core.glom[debug]'],
     'old': "        if glom_debug:\n            raise\n", 'new': ""},
    {'name': 'wrap: GlomError first in bases', 'module': 'core', 'only': ['core.GlomError.wrap'], 'expect': ['core.GlomError.wrap'],
     'old': "else (exc_type, GlomError)", 'new': "else (GlomError, exc_type)"},
    {'name': 'T attribute step catches TypeError too', 'module': 'core', 'only': ['C04.except-sites'], 'expect': ['C04.except-sites'], 'old': '                cur = getattr(cur, arg)\n            except AttributeError as e:', 'new': '                cur = getattr(cur, arg)\n            except (AttributeError, TypeError) as e:'},
]
