"""Further reference semantics (Invoke.glomit, _precedence, Optional / Required constructors, GlomError.__str__ / _finalize, get_message renderers)."""
try:
    assume
except NameError:
    def assume(cond):
        return None
import sys, traceback, operator
from collections import OrderedDict
from glom.core import TType, S, _t_child
from glom.reduction import Fold
from glom.mutation import Assign, Delete, _UNASSIGNABLE_BASE_TYPES, _set_sequence_item, _del_sequence_item
import warnings
from glom.core import (PATH_STAR, _T_STAR, _T_STARSTAR, glom, T, Spec, Path, _is_spec, format_target_spec_trace, _PKG_DIR_PATH, bbrepr, _MISSING, GlomError)
from glom.matching import Required, Optional, _precedence, MatchError, _MISSING as _M_MISSING
from glom.core import _has_callable_glomit, bbformat, _format_t, _format_path, _format_slice, format_invocation, A


def invoke_glomit_ref(self, target, scope):
    """Invoke: the function (evaluated if it is a Spec) is called with the positional arguments of every .constants / .specs / .star call in
    order (specs evaluated against the target), and for every keyword the value set by the MOST RECENT call that set it"""
    all_args = []
    all_kwargs = {}
    recurse = lambda spec: scope[glom](target, spec, scope)
    func = recurse(self.func) if _is_spec(self.func, strict=True) else self.func
    for i in range(len(self._args) // 3):
        op, args, kwargs = self._args[i * 3: i * 3 + 3]
        if op == 'C':
            all_args.extend(args)
            all_kwargs.update({k: v for k, v in kwargs.items() if self._cur_kwargs[k] is kwargs})
        elif op == 'S':
            all_args.extend([recurse(arg) for arg in args])
            all_kwargs.update({k: recurse(v) for k, v in kwargs.items() if self._cur_kwargs[k] is kwargs})
        elif op == '*':
            if args is not None:
                all_args.extend(recurse(args))
            if kwargs is not None:
                all_kwargs.update(recurse(kwargs))
    return func(*all_args, **all_kwargs)


def precedence_ref(match):
    """0 for == constants (incl. the empty tuple / frozenset), 1 for specs (objects with glomit), 2 for types; Required / Optional are
    transparent; tuples / frozensets take the maximum over their members"""
    if type(match) in (Required, Optional):
        match = match.key
    if type(match) in (tuple, frozenset):
        if not match:
            return 0
        return max([_precedence(item) for item in match])
    if isinstance(match, type):
        return 2
    if hasattr(match, "glomit"):
        return 1
    return 0


def optional_init_ref(self, key, default=_M_MISSING):
    if type(key) in (Required, Optional):
        raise TypeError("double wrapping of Optional")
    hash(key)
    if _precedence(key) != 0:
        raise ValueError(f"Optional() keys must be == match constants, not {key!r}")
    self.key, self.default = key, default


def required_init_ref(self, key):
    if type(key) in (Required, Optional):
        raise TypeError("double wrapping of Required")
    hash(key)
    if _precedence(key) == 0:
        raise ValueError("== match constants are already required: " + bbrepr(key))
    self.key = key


def optional_glomit_ref(self, target, scope):
    if target != self.key:
        raise MatchError("target {0} != spec {1}", target, self.key)
    return target


def glomerror_str_ref(self):
    """the message of a finalized error: header, the target-spec trace rendered from the recorded scope, then the traceback tail;
    computed once and memoised on the error object; an unfinalized error shows its get_message() (or the plain exception text)"""
    if getattr(self, '_finalized_str', None):
        return self._finalized_str
    elif getattr(self, '_scope', None) is not None:
        self._target_spec_trace = format_target_spec_trace(self._scope, self._GlomError__wrapped)
        parts = ["error raised while processing, details below.", " Target-spec trace (most recent last):", self._target_spec_trace]
        parts.extend(self._tb_lines)
        self._finalized_str = "\n".join(parts)
        return self._finalized_str
    try:
        exc_get_message = self.get_message
    except AttributeError:
        exc_get_message = super(GlomError, self).__str__
    return exc_get_message()


def pae_get_message_ref(self):
    path_part = Path(self.path).values()[self.part_idx]
    return ('could not access %r, part %r of %r, got error: %r' % (path_part, self.part_idx, self.path, self.exc))


def finalize_ref(self, scope):
    """_finalize: remembers the scope the trace will be rendered from and the tail of the current traceback outside the glom package; the
    message is rendered from THIS scope (C05: 'begins with the root target' of the glom() call that raised), so a message memoised by an
    earlier str() of the same error object (finalised by an inner glom() call, or copied from one) is discarded"""
    etype, evalue, _ = sys.exc_info()
    tb_lines = traceback.format_exc().strip().splitlines()
    limit = 0
    for line in reversed(tb_lines):
        if _PKG_DIR_PATH in line:
            limit -= 1
            break
        limit += 1
    self._tb_lines = tb_lines[-limit:]
    if set(self._tb_lines[0]) <= {' ', '^', '~'}:
        self._tb_lines = self._tb_lines[1:]
    self._scope = scope
    self._finalized_str = None


def from_text_ref(cls, text):
    """Path.from_text: the Path of the '.'-separated segments ('*' / '**' segments are the wildcard steps iff PATH_STAR), memoised per
    (PATH_STAR, text) in a cache that is bypassed -- not evicted, not corrupted -- once it holds more than _MAX_CACHE entries"""
    def create():
        segs = text.split('.')
        if PATH_STAR:
            segs = [_T_STAR if seg == '*' else _T_STARSTAR if seg == '**' else seg for seg in segs]
        elif not cls._STAR_WARNED:
            if '*' in segs or '**' in segs:
                warnings.warn("'*' and '**' have changed behavior in glom version 23.1."
                              " Recommend switch to T['*'] or T['**'].")
                cls._STAR_WARNED = True
        return cls(*segs)
    cache = cls._CACHE[PATH_STAR]
    if text in cache:
        return cache[text]
    if len(cache) > cls._MAX_CACHE:
        return create()
    cache[text] = create()
    return cache[text]


# ---------------------------------------------------------------------------------------------------------------- constructors
def assign_init_ref(self, path, val, missing=None):
    """Assign(path, val, missing): path may be dotted text, a T expression or a Path; it is split into the parent path and the final
    (op, arg), which must be an attribute / item / path-segment step; missing must be callable"""
    if isinstance(path, str):
        path = Path.from_text(path)
    elif type(path) is TType:
        path = Path(path)
    elif not isinstance(path, Path):
        raise TypeError('path argument must be a .-delimited string, Path, T, or S')
    try:
        self.op, self.arg = path.items()[-1]
    except IndexError:
        raise ValueError('path must have at least one element')
    self._orig_path = path
    self.path = path[:-1]
    if self.op not in '[.P':
        raise ValueError('last part of path must be setattr or setitem')
    self.val = val
    if missing is not None:
        if not callable(missing):
            raise TypeError(f'expected missing to be callable, not {missing!r}')
    self.missing = missing


def delete_init_ref(self, path, ignore_missing=False):
    if isinstance(path, str):
        path = Path.from_text(path)
    elif type(path) is TType:
        path = Path(path)
    elif not isinstance(path, Path):
        raise TypeError('path argument must be a .-delimited string, Path, T, or S')
    try:
        self.op, self.arg = path.items()[-1]
    except IndexError:
        raise ValueError('path must have at least one element')
    self._orig_path = path
    self.path = path[:-1]
    if self.op not in '[.P':
        raise ValueError('last part of path must be an attribute or index')
    self.ignore_missing = ignore_missing


def assign_func_ref(obj, path, val, missing=None):
    return glom(obj, Assign(path, val, missing=missing))


def delete_func_ref(obj, path, ignore_missing=False):
    return glom(obj, Delete(path, ignore_missing=ignore_missing))


def match_verify_ref(self, target):
    return glom(target, self)


def match_matches_ref(self, target):
    """matches() agrees with verify(): False exactly when verify raises a GlomError"""
    try:
        glom(target, self)
    except GlomError:
        return False
    return True


def fold_init_ref(self, subspec, init, op=operator.iadd):
    self.subspec = subspec
    self.init = init
    self.op = op
    if not callable(op):
        raise TypeError('expected callable for %s op param, not: %r' % (self.__class__.__name__, op))
    if not callable(init):
        raise TypeError('expected callable for %s init param, not: %r' % (self.__class__.__name__, init))


def register_fuzzy_type_ref(self, op, new_type, _type_tree=None):
    """files new_type in the op's type tree: already filed subclasses of it move below it, it moves below an already filed superclass
    (recursively), otherwise it becomes a new top-level node"""
    if _type_tree is None:
        try:
            _type_tree = self._op_type_tree[op]
        except KeyError:
            _type_tree = self._op_type_tree[op] = OrderedDict()
    filed = False
    for known, below in list(_type_tree.items()):
        if issubclass(known, new_type):
            below = _type_tree.pop(known)
            try:
                _type_tree[new_type][known] = below
            except KeyError:
                _type_tree[new_type] = OrderedDict({known: below})
            filed = True
        elif issubclass(new_type, known):
            _type_tree[known] = self._register_fuzzy_type(op, new_type, _type_tree=below)
            filed = True
    if not filed:
        _type_tree[new_type] = OrderedDict()
    return _type_tree


def assign_autodiscover_ref(type_obj):
    """default assign handler of a type: none for immutable builtins; item assignment (integer-coerced for sequences) when the type has
    __setitem__; attribute assignment otherwise"""
    if issubclass(type_obj, _UNASSIGNABLE_BASE_TYPES):
        return False
    if callable(getattr(type_obj, '__setitem__', None)):
        if callable(getattr(type_obj, 'index', None)):
            return _set_sequence_item
        return operator.setitem
    return setattr


def delete_autodiscover_ref(type_obj):
    if issubclass(type_obj, _UNASSIGNABLE_BASE_TYPES):
        return False
    if callable(getattr(type_obj, '__delitem__', None)):
        if callable(getattr(type_obj, 'index', None)):
            return _del_sequence_item
        return operator.delitem
    return delattr


def coalesce_init_ref(self, *subspecs, **kwargs):
    """Coalesce(*subspecs, default=, default_factory=, skip=, skip_exc=): at most one of default / default_factory; skip is a predicate, a
    tuple of values (membership) or a single value (equality); skip_exc defaults to GlomError; unknown keywords are a TypeError"""
    self.subspecs = subspecs
    self._orig_kwargs = dict(kwargs)
    self.default = kwargs.pop('default', _MISSING)
    self.default_factory = kwargs.pop('default_factory', _MISSING)
    if self.default and self.default_factory:
        raise ValueError('expected one of "default" or "default_factory", not both')
    self.skip = kwargs.pop('skip', _MISSING)
    if self.skip is _MISSING:
        self.skip_func = lambda v: False
    elif callable(self.skip):
        self.skip_func = self.skip
    elif isinstance(self.skip, tuple):
        self.skip_func = lambda v: v in self.skip
    else:
        self.skip_func = lambda v: v == self.skip
    self.skip_exc = kwargs.pop('skip_exc', GlomError)
    if kwargs:
        raise TypeError(f'unexpected keyword args: {sorted(kwargs.keys())!r}')


def call_init_ref(self, func=None, args=None, kwargs=None):
    if func is None:
        func = T
    if not (callable(func) or isinstance(func, (Spec, TType))):
        raise TypeError('expected func to be a callable or T expression, not: %r' % (func,))
    if args is None:
        args = ()
    if kwargs is None:
        kwargs = {}
    self.func, self.args, self.kwargs = func, args, kwargs


def switch_init_ref(self, cases, default=_M_MISSING):
    """Switch(cases, default): a dict of cases becomes the list of its items (insertion order = case order); at least one case"""
    if type(cases) is dict:
        cases = list(cases.items())
    if type(cases) is not list:
        raise TypeError("expected cases argument to be of format {{keyspec: valspec}} or [(keyspec, valspec)] not: {}".format(type(cases)))
    self.cases = cases
    self.default = default
    if not cases:
        raise ValueError('expected at least one case in %s, got: %r' % (self.__class__.__name__, self.cases))
    return None


def bool_init_ref(self, *children, **kw):
    self.children = children
    if not children:
        raise ValueError("need at least one operand for {}".format(self.__class__.__name__))
    self.default = kw.pop('default', _M_MISSING)
    if kw:
        raise TypeError('got unexpected kwargs: %r' % list(kw.keys()))


def ttype_call_ref(self, *args, **kwargs):
    """calling a T expression records a call step; S(...) takes keyword arguments only (at least one): they become scope assignments"""
    if self is S:
        if args:
            raise TypeError(f'S() takes no positional arguments, got: {args!r}')
        if not kwargs:
            raise TypeError('S() expected at least one kwarg, got none')
    return _t_child(self, '(', (args, kwargs))


def merge_init_ref(self, subspec=T, init=dict, op=None):
    """Merge: op defaults to the 'update' method of type(init()); a string names a method of that type; it must be callable"""
    if op is None:
        op = 'update'
    if isinstance(op, str):
        test_init = init()
        op = getattr(type(test_init), op, None)
    if not callable(op):
        raise ValueError('expected callable "op" arg or an "init" with an .update() method not %r and %r' % (op, init))
    Fold.__init__(self, subspec=subspec, init=init, op=op)


def flatten_init_ref(self, subspec=T, init=list):
    if init == 'lazy':
        self.lazy = True
        init = list
    else:
        self.lazy = False
    Fold.__init__(self, subspec=subspec, init=init, op=operator.iadd)


def register_op_ref(self, op_name, auto_func=None, exact=False):
    """register_op: a new operation gets, for every already known type, the auto-discovered handler (callable or False); unless exact every
    known type is filed in the new op's tree -- in a DETERMINISTIC order (by type name, like the handler loop): the tree's sibling order decides
    which of two unrelated matching types wins (C13), so it must not depend on the iteration order of a set of type objects, which follows
    their memory addresses and differs from process to process"""
    if not isinstance(op_name, str):
        raise TypeError(f'expected op_name to be a text name, not: {op_name!r}')
    if auto_func is None:
        auto_func = lambda t: False
    elif not callable(auto_func):
        raise TypeError(f'expected auto_func to be callable, not: {auto_func!r}')
    known_types = set(sum([list(m.keys()) for m in self._op_type_map.values()], []))
    type_map = self._op_type_map.get(op_name, OrderedDict())
    type_tree = self._op_type_tree.get(op_name, OrderedDict())
    for t in sorted(known_types, key=lambda t: t.__name__):
        if t in type_map:
            continue
        try:
            handler = auto_func(t)
        except Exception as e:
            raise TypeError('error while determining support for operation "%s" on target type: %s (got %r)' % (op_name, t.__name__, e))
        if handler is not False and not callable(handler):
            raise TypeError('expected handler for op "%s" to be callable or False, not: %r' % (op_name, handler))
        type_map[t] = handler
    if not exact:
        for t in sorted(known_types, key=lambda t: t.__name__):
            self._register_fuzzy_type(op_name, t, _type_tree=type_tree)
    self._op_type_map[op_name] = type_map
    self._op_type_tree[op_name] = type_tree
    self._op_auto_map[op_name] = auto_func


# ---- message renderers of the error classes (C05: the trace ends with the type and message of the original error) -------------------------
def coalesce_get_message_ref(self):
    """CoalesceError: the alternatives tried, and per alternative the class name of the error that ended it (or '<skipped Class>' for a
    value rejected by skip), then the skip / skip_exc settings when they are not the defaults, then the path"""
    missed_specs = tuple(self.coal_obj.subspecs)
    skipped_vals = [v.__class__.__name__ if isinstance(v, self.coal_obj.skip_exc) else '<skipped %s>' % v.__class__.__name__ for v in self.skipped]
    msg = ('no valid values found. Tried %r and got (%s)' % (missed_specs, ', '.join(skipped_vals)))
    if self.coal_obj.skip is not _MISSING:
        msg += f', skip set to {self.coal_obj.skip!r}'
    if self.coal_obj.skip_exc is not GlomError:
        msg += f', skip_exc set to {self.coal_obj.skip_exc!r}'
    if self.path is not None:
        msg += f' (at path {self.path!r})'
    return msg


def unregistered_get_message_ref(self):
    """UnregisteredTarget: without any registration for the op a hint to register(); otherwise the target type's name, the op and the sorted
    names of the types that do support it, then the path when there is one"""
    if not self.type_map:
        return ("glom() called without registering any types for operation '%s'. see glom.register() or Glommer's constructor for details." % (self.op,))
    reg_types = sorted([t.__name__ for t, h in self.type_map.items() if h])
    reg_types_str = '()' if not reg_types else ('(%s)' % ', '.join(reg_types))
    msg = ("target type %r not registered for '%s', expected one of registered types: %s" % (self.target_type.__name__, self.op, reg_types_str))
    if self.path:
        msg += f' (at {self.path!r})'
    return msg


def check_get_message_ref(self):
    """CheckError: the path, the sub-spec when it is not T, and the one error or the count and list of errors"""
    msg = 'target at path %s failed check,' % self.path
    if self.check_obj.spec is not T:
        msg += f' subtarget at {self.check_obj.spec!r}'
    if len(self.msgs) == 1:
        msg += f' got error: {self.msgs[0]!r}'
    else:
        msg += f' got {len(self.msgs)} errors: {self.msgs!r}'
    return msg


def match_get_message_ref(self):
    """MatchError: the format string (first arg) applied to the remaining args"""
    fmt, args = self.args[0], self.args[1:]
    return bbformat(fmt, *args)


def assign_get_message_ref(self):
    return 'could not assign %r on object at %r, got error: %r' % (self.dest_name, self.path, self.exc)


def delete_get_message_ref(self):
    return 'could not delete %r on object at %r, got error: %r' % (self.dest_name, self.path, self.exc)


def set_wrapped_ref(self, exc):
    self._GlomError__wrapped = exc


def is_spec_ref(obj, strict=False):
    """what counts as a spec object: any T expression; strictly also exactly Spec instances; loosely anything with a callable glomit"""
    if isinstance(obj, TType):
        return True
    if strict:
        return type(obj) is Spec
    return _has_callable_glomit(obj)


# ---- rendering of paths and T expressions (C18: repr; only regression equivalence -- that eval(repr(x)) == x needs the parser and stays bounded)
def format_path_ref(t_path):
    """a Path prints as Path(seg, ...): consecutive non-'P' steps are grouped into one T-expression segment, 'P' steps print as their repr;
    a path without any 'P' step prints as the T expression itself (except the empty path: 'Path()')"""
    path_parts, cur_t_path = [], []
    i = 0
    while i < len(t_path):
        op, arg = t_path[i], t_path[i + 1]
        i += 2
        if op == 'P':
            if cur_t_path:
                path_parts.append(cur_t_path)
                cur_t_path = []
            path_parts.append(arg)
        else:
            cur_t_path.append(op)
            cur_t_path.append(arg)
    if path_parts and cur_t_path:
        path_parts.append(cur_t_path)
    if path_parts or not cur_t_path:
        return 'Path(%s)' % ', '.join([_format_t(part) if type(part) is list else repr(part) for part in path_parts])
    return _format_t(cur_t_path)


def format_t_ref(path, root=T):
    """a T expression prints as the Python expression that records it: root name, then per step .attr / [index or slice or tuple of them] /
    (call arguments) / .__star__() / .__starstar__(); unary steps wrap what is printed so far (parenthesised when it already contains an
    operator); binary steps print ' op ' and the argument (a T argument that itself contains an operator is parenthesised; ':' prints as '**');
    a path that contains a 'P' step is printed as a Path"""
    prepr = [{T: 'T', S: 'S', A: 'A'}[root]]
    i = 0
    while i < len(path):
        op, arg = path[i], path[i + 1]
        if op == '.':
            prepr.append('.' + arg)
        elif op == '[':
            if type(arg) is tuple:
                index = ", ".join([_format_slice(x) for x in arg])
            else:
                index = _format_slice(arg)
            prepr.append(f"[{index}]")
        elif op == '(':
            args, kwargs = arg
            prepr.append(format_invocation(args=args, kwargs=kwargs, repr=bbrepr))
        elif op == 'P':
            return _format_path(path)
        elif op == 'x':
            prepr.append(".__star__()")
        elif op == 'X':
            prepr.append(".__starstar__()")
        elif op in ('_', '~'):
            if any([o in path[:i] for o in '+-/%:&|^~_']):
                prepr = ['('] + prepr + [')']
            prepr = ['-' if op == '_' else op] + prepr
        else:
            formatted_arg = bbrepr(arg)
            if type(arg) is TType:
                arg_path = arg.__ops__
                if any([o in arg_path for o in '+-/%:&|^~_']):
                    formatted_arg = '(' + formatted_arg + ')'
            prepr.append(' ' + ('**' if op == ':' else op) + ' ')
            prepr.append(formatted_arg)
        i += 2
    return "".join(prepr)
