"""Reference semantics of the error-trace machinery (C05), written from the property statement."""
try:
    assume
except NameError:
    def assume(cond):
        return None
import traceback
from glom.core import (T, Spec, LAST_CHILD_SCOPE, CHILD_ERRORS, CUR_ERROR, TRACE_WIDTH, _MISSING, bbrepr, _unpack_stack, _format_trace_value,
                       format_target_spec_trace)


def unpack_stack_ref(scope, only_errors=True):
    """follow LAST_CHILD_SCOPE from the given scope: one entry [frame, spec, target, error, branches] per level; a level whose failed
    children are exactly its last child is linear (no branches); the descent stops where the last child is among the branches (they are
    rendered recursively); an error is shown at the deepest level that recorded it; trailing levels without an error are trimmed
    (at least one entry stays)"""
    stack = []
    frame = scope.maps[0]
    while LAST_CHILD_SCOPE in frame:
        child = frame[LAST_CHILD_SCOPE]
        branches = frame[CHILD_ERRORS]
        if branches == [child]:
            branches = []
        stack.append([frame, frame[Spec], frame[T], frame.get(CUR_ERROR), branches])
        if id(child) in [id(b) for b in branches]:
            break
        frame = child.maps[0]
    else:
        stack.append([frame, frame[Spec], frame[T], frame.get(CUR_ERROR), []])
    for i in range(len(stack) - 1):
        upper, lower = stack[i], stack[i + 1]
        if upper[3] == lower[3]:
            upper[3] = None
    if only_errors:
        while len(stack) > 1 and stack[-1][3] is None:
            stack.pop()
    return stack


def format_trace_value_ref(value, maxlen):
    """the repr, truncated to at most maxlen characters with a '... (len=n)' (or '...') suffix when it does not fit"""
    text = bbrepr(value).replace("\\'", "'")
    if len(text) > maxlen:
        try:
            suffix = '... (len=%s)' % len(value)
        except Exception:
            suffix = '...'
        text = text[:maxlen - len(suffix)] + suffix
    return text


def format_trace_ref(scope, root_error, width=TRACE_WIDTH, depth=0, prev_target=_MISSING, last_branch=True):
    """one 'Target' line whenever the target is a different OBJECT than the previous level's, one 'Spec' line per level ('+' for a
    branching level, followed by the traces of all its failed branches in order), and an error line for every recorded error that
    is not the root error; nested traces are marked with a backslash on their first and X on their last line"""
    segments = []
    indent = " " + "|" * depth
    tick = "| " if depth else "- "
    def mk_fmt(label, t=None):
        pre = indent + (t or tick) + label + ": "
        fmt_width = width - len(pre)
        return lambda v: pre + _format_trace_value(v, fmt_width)
    fmt_t = mk_fmt("Target")
    fmt_s = mk_fmt("Spec")
    fmt_b = mk_fmt("Spec", "+ ")
    recurse = lambda s, last=False: format_target_spec_trace(s, root_error, width, depth + 1, prev_target, last)
    tb_exc_line = lambda e: "".join(traceback.format_exception_only(type(e), e))[:-1]
    fmt_e = lambda e: indent + tick + tb_exc_line(e)
    for scope, spec, target, error, branches in _unpack_stack(scope):
        if target is not prev_target:
            segments.append(fmt_t(target))
        prev_target = target
        if branches:
            segments.append(fmt_b(spec))
            segments.extend([recurse(s) for s in branches[:-1]])
            segments.append(recurse(branches[-1], last_branch))
        else:
            segments.append(fmt_s(spec))
        if error is not None and error is not root_error:
            last_line_error = True
            segments.append(fmt_e(error))
        else:
            last_line_error = False
    if depth:
        remark = lambda s, m: s[:depth + 1] + m + s[depth + 2:]
        segments[0] = remark(segments[0], "\\")
        if not last_branch or last_line_error:
            segments[-1] = remark(segments[-1], "X")
    return "\n".join(segments)
