"""Native differential replay: runs a real glom function and its reference semantics on concrete inputs inside real glom() calls.
Used only to turn a refuted obligation into a replayable failing input (witness search); it never decides anything."""
import itertools, re

_ADDR = re.compile(r' at 0x[0-9a-f]+')


class _Probe:
    def __init__(self, fn, mode, spec):
        self.fn, self.mode, self.spec = fn, mode, spec

    def glomit(self, target, scope):
        if self.mode == 'method':
            return self.fn(self.spec, target, scope)
        if self.mode == 'handler2':
            return self.fn(target, self.spec)
        if self.mode == 'kwcall':         # fn(target, **spec)
            return self.fn(target, **self.spec)
        if self.mode == 'apply':          # fn(callback, path, value): record the callback's arguments
            out = []
            self.fn(out.append, self.spec, target)
            return out
        return self.fn(target, self.spec, scope)


def outcome(fn, mode, target, spec, **kw):
    import glom
    try:
        v = glom.glom(target, _Probe(fn, mode, spec), glom_debug=True, **kw)
        try:
            text = repr(v)
        except Exception as e2:
            text = '<unreprable %s>' % type(e2).__name__
        return ('ok', type(v).__name__, _ADDR.sub('', text))
    except BaseException as e:
        args = getattr(e, 'args', ())
        try:
            text = repr(args)
        except Exception as e2:
            text = '<unreprable %s>' % type(e2).__name__
        extra = ''
        if hasattr(e, 'part_idx'):
            extra = ' part_idx=%r exc=%s' % (e.part_idx, type(getattr(e, 'exc', None)).__name__)
        return ('exc', type(e).__name__, _ADDR.sub('', text)[:200] + extra)


def run_pair(real, ref, target_src, spec_src, mode='handler', env=None, **kw):
    """evaluates the two source snippets freshly for each side (so that side effects do not leak) and compares outcomes"""
    import glom
    genv = dict(vars(glom))
    genv.update(env or {})
    a = outcome(real, mode, eval(target_src, dict(genv)), eval(spec_src, dict(genv)), **kw)
    b = outcome(ref, mode, eval(target_src, dict(genv)), eval(spec_src, dict(genv)), **kw)
    return a, b


def differ(real_name, ref_name, cases, mode='handler', prelude=''):
    """-> witness finder(name, model) for runner.NATIVE.  cases: list of (target_src, spec_src)"""
    def find(name, model, count=None):
        import importlib
        rm, rf = real_name.split('.', 1)
        real = importlib.import_module('glom.' + rm)
        for part in rf.split('.'):
            real = getattr(real, part)
        qm, qf = ref_name.rsplit('.', 1)
        ref = getattr(importlib.import_module('contracts.' + qm), qf)
        env = {}
        if prelude:
            exec(prelude, env)
        for t, s in (cases() if callable(cases) else cases):
            if count is not None:
                count[0] += 1
            a, b = run_pair(real, ref, t, s, mode, env)
            if a != b:
                code = ("import importlib, glom\nfrom contracts.native import run_pair\n%s\n"
                        "real = importlib.import_module('glom.%s')\nfor p in %r.split('.'):\n    real = getattr(real, p)\n"
                        "ref = getattr(importlib.import_module('contracts.%s'), %r)\n"
                        "env = {k: v for k, v in globals().items()}\n"
                        "a, b = run_pair(real, ref, %r, %r, %r, env)\nprint('real code      :', a)\nprint('reference says :', b)\nassert a == b\n"
                        % (prelude, rm, rf, qm, qf, t, s, mode))
                return {'input': {'target': t, 'spec': s}, 'observed': repr(a), 'expected': repr(b), 'replay_code': code}
        return None

    def run():
        """bounded differential replay of the contract: real code vs reference on the whole input catalogue"""
        n = [0]
        w = find('(differential replay)', {}, n)
        return n[0], w
    find.run = run
    find.real_name, find.ref_name = real_name, ref_name
    return find


TARGETS = ["{'a': 1, 'b': {'c': [1, 2, 3]}}", "[1, 2, 3]", "[]", "None", "{'a': None}", "(1, 2)", "'text'", "0", "{'a': [{'b': 1}, {'b': 2}]}"]
