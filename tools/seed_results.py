#!/usr/bin/env python3
"""writes seeded/RESULTS.md from the output of tools/run_seeded.sh (one line per seeded change)"""
import json, os, re, sys
HERE = os.path.dirname(os.path.dirname(os.path.abspath(__file__)))
lines = [l.strip() for f in sys.argv[1:] for l in open(f) if re.match(r'^C\d+-[AB]\d?:', l)]
out = ['# Seeded changes vs the quick checks', '',
       'Produced by `tools/run_seeded.sh` (apply the patch to /repo, run `./check <Cxx>`, undo). One row per kept change; suffix 2 / 3 = second / third round.', 'First-contact results of round 2 (before the checks were strengthened): `sweep2_first_contact.txt`. Round 3 first contact: 7 of 14 missed (see DESIGN.md A.5).', '',
       '| seed | property | what the change needs to manifest (from the sub-agent notes) | check exit | VIOLATION lines | first replay |', '|---|---|---|---|---|---|']
for l in lines:
    m = re.match(r'^(C\d+-[AB]\d?): exit (\d+); (\d+) violation lines; ?(.*)$', l)
    if not m:
        continue
    seed, rc, n, first = m.groups()
    meta = json.load(open(os.path.join(HERE, 'seeded', seed, 'meta.json')))
    notes = meta.get('notes', '')
    need = ''
    mm = re.search(r'(?i)(needs?|manifest)[^\n]*\n?([^\n]*)', notes)
    letter = re.sub(r'\d', '', seed.split('-')[1])
    parts = re.split(r'(?im)^#+ *(?:Patch|Mutation) *B\b', notes)
    sect = parts[0] if letter == 'A' else (parts[-1] if len(parts) > 1 else notes)
    sect = re.sub(r'\s+', ' ', sect)[:260]
    out.append('| %s | %s | %s | %s | %s | %s |' % (seed, seed.split('-')[0], sect.replace('|', '/'), rc, n, first.replace('VIOLATION property=%s replay=' % seed.split('-')[0], '').replace('/verif/', '')))
detected = sum(1 for l in lines if '; 0 violation' not in l and 'exit 1' in l)
out += ['', '%d of %d seeded changes are reported as VIOLATION (exit 1).' % (detected, len(lines))]
open(os.path.join(HERE, 'seeded', 'RESULTS.md'), 'w').write('\n'.join(out) + '\n')
print(out[-1])
