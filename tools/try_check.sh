#!/bin/sh
# tools/try_check.sh <seed-dir-name> <Cxx> : run a whole check against a seeded change applied in the scratch worktree /tmp/clean (evidence restored afterwards)
S=$1; P=$2
[ -d /tmp/clean ] || git -C /repo worktree add -q --detach /tmp/clean HEAD
git -C /tmp/clean checkout -q -- . && git -C /tmp/clean apply /verif/seeded/$S/patch.diff || exit 2
cp /verif/evidence/$P.json /tmp/tc_ev_$P.json
GLOM_REPO=/tmp/clean /verif/check $P > /tmp/tc_$S_$P.out 2>&1; rc=$?
cp /tmp/tc_ev_$P.json /verif/evidence/$P.json
git -C /tmp/clean checkout -q -- .
grep -v "^  proved" /tmp/tc_$S_$P.out | tail -${TAIL:-12}
echo "exit $rc"
