#!/bin/sh
# tools/confirm_seed.sh <Cxx> <A|B> : independently confirm a sub-agent's seeded change in a fresh scratch worktree, then keep it
set -e
P=$1; X=$2; SRC=${SEED_SRC:-/tmp/wt_$P}/_out; W=/tmp/cs_${P}_$X; SUF=${SEED_SUFFIX:-}
[ -f $SRC/patch$X.diff ] || { echo "no patch"; exit 2; }
git -C /repo worktree add -q --detach $W HEAD
cleanup(){ git -C /repo worktree remove --force $W 2>/dev/null || true; }
trap cleanup EXIT
cd $W
PYTHONPATH=$W /venv/bin/python $SRC/demo$X.py >/tmp/cs_clean.out 2>&1 || { echo "FAIL: demo fails on clean tree"; tail -3 /tmp/cs_clean.out; exit 1; }
git apply $SRC/patch$X.diff
PYTHONPATH=$W /venv/bin/python -m pytest -q -p no:cacheprovider glom/test > /tmp/cs_suite.out 2>&1 || true
tail -1 /tmp/cs_suite.out | grep -q "1 failed, 199 passed" || { echo "FAIL: suite differs"; tail -3 /tmp/cs_suite.out; exit 1; }
if PYTHONPATH=$W /venv/bin/python $SRC/demo$X.py >/tmp/cs_mut.out 2>&1; then echo "FAIL: demo passes with patch"; exit 1; fi
D=/verif/seeded/$P-$X$SUF; mkdir -p $D
cp $SRC/patch$X.diff $D/patch.diff; cp $SRC/demo$X.py $D/demo.py
/venv/bin/python - "$P" "$X" "$D" "$SRC" <<'PY'
import json, sys, re
p, x, d, src = sys.argv[1:5]
notes = open(src + '/notes.md').read()
json.dump({'property': p, 'label': x, 'source': 'independent sub-agent given only the property text and a scratch worktree',
           'needs_to_manifest': 'see notes', 'notes': notes[:4000],
           'confirmed': {'demo_on_clean_tree': 'exit 0', 'suite_with_patch': '199 passed, 1 failed (test_cli::test_main, fails in baseline too)',
                         'demo_with_patch': 'non-zero exit', 'how': 'tools/confirm_seed.sh in a fresh scratch worktree of /repo HEAD'}},
          open(d + '/meta.json', 'w'), indent=1)
PY
echo "CONFIRMED $P-$X$SUF: $(tail -1 /tmp/cs_mut.out | cut -c1-150)"
