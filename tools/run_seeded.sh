#!/bin/sh
# tools/run_seeded.sh [Cxx-X ...] : apply each kept seeded change to /repo, run the property's quick check, undo; prints one line each
cd /verif
for d in ${@:-$(ls -d seeded/*/ | xargs -n1 basename)}; do
  P=${d%%-*}
  [ -f contracts/$P.py ] || { echo "$d: no check for $P yet"; continue; }
  git -C /repo apply /verif/seeded/$d/patch.diff || { echo "$d: patch does not apply"; continue; }
  cp evidence/$P.json /tmp/ev_$P.json 2>/dev/null
  ./check $P > /tmp/rs_$d.out 2>&1; rc=$?
  git -C /repo checkout -- .
  cp /tmp/ev_$P.json evidence/$P.json 2>/dev/null   # evidence files describe the unchanged tree only
  echo "$d: exit $rc; $(grep -c '^VIOLATION' /tmp/rs_$d.out) violation lines; $(grep -m1 '^VIOLATION' /tmp/rs_$d.out | cut -c1-120)"
done
