#!/bin/sh
# tools/try_seed.sh <seed-dir-name> <Cxx> [label-prefix...] : run selected contracts of a check against a seeded change in the scratch worktree /tmp/clean
S=$1; P=$2; shift 2
[ -d /tmp/clean ] || git -C /repo worktree add -q --detach /tmp/clean HEAD
git -C /tmp/clean checkout -q -- . && git -C /tmp/clean apply /verif/seeded/$S/patch.diff || exit 2
GLOM_REPO=/tmp/clean PYTHONPATH=/tmp/clean:/verif /verif/.venv/bin/python /verif/tools/one.py $P "$@" 2>&1 | grep -v "^  proved"
git -C /tmp/clean checkout -q -- .
