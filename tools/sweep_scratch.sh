#!/bin/sh
# tools/sweep_scratch.sh <worktree> [seed ...] : like run_seeded.sh, but against a scratch worktree of /repo (GLOM_REPO) with evidence redirected,
# so it touches neither /repo nor /verif/evidence and can run next to other work
W=$1; shift
cd /verif
[ -d $W ] || git -C /repo worktree add -q --detach $W HEAD
for d in ${@:-$(ls -d seeded/*/ | xargs -n1 basename)}; do
  P=${d%%-*}
  git -C $W checkout -q -- . && git -C $W apply /verif/seeded/$d/patch.diff || { echo "$d: patch does not apply"; continue; }
  GLOM_REPO=$W PYVC_EVIDENCE_DIR=/tmp/sweep_ev ./check $P > /tmp/ss_$d.out 2>&1; rc=$?
  git -C $W checkout -q -- .
  echo "$d: exit $rc; $(grep -c '^VIOLATION' /tmp/ss_$d.out) violation lines; $(grep -m1 '^VIOLATION' /tmp/ss_$d.out | cut -c1-120)"
done
