#!/usr/bin/env python3
"""tools/one.py <Cxx> <label-prefix>... : run selected contracts, print every obligation (development aid)"""
import sys, importlib, os, time
sys.path.insert(0, os.path.dirname(os.path.dirname(os.path.abspath(__file__)))); sys.path.insert(0, '/repo')
from pyvc import runner
pid = sys.argv[1]; only = sys.argv[2:] or None
mod = importlib.import_module('contracts.' + pid)
v, res, ts, tz = runner.build_and_prove(mod, only=only)
for r in res:
    print(' ', r['status'], r['name'], 'paths', r['paths'], '%.2fs' % r['time'], r['solver'])
    if r['status'] == 'refuted' and os.environ.get('MODEL'):
        print('     ', {k: v for k, v in r.get('model', {}).items() if not k.startswith('CLS_')})
print('failed covers', [n for n, ok in v.covers if not ok])
print('undecided', v.undecided, 'sym %.1fs solve %.1fs' % (ts, tz))
