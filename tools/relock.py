#!/usr/bin/env python3
"""rebuilds obligations.lock from the evidence files of the last runs (names of the obligations that discharged)"""
import json, glob, os
HERE = os.path.dirname(os.path.dirname(os.path.abspath(__file__)))
lock = {}
for f in sorted(glob.glob(os.path.join(HERE, 'evidence', 'C*.json'))):
    ev = json.load(open(f))
    lock[ev['property_id']] = sorted(o['name'] for o in ev['coverage']['per_obligation'] if o['status'] == 'proved')
    # statements of functions under contract that no symbolic execution reaches (reviewed: each is explained in DESIGN.md A.6)
    lock[ev['property_id'] + '#unexecuted'] = sorted(ev['coverage'].get('unexecuted_statements', []))
json.dump(lock, open(os.path.join(HERE, 'obligations.lock'), 'w'), indent=1, sort_keys=True)
print({k: len(v) for k, v in lock.items() if '#' not in k})
print({k: v for k, v in lock.items() if '#' in k and v})
