#!/usr/bin/env python3
"""regenerates MANIFEST.json from the table below and validates it against the schema"""
import json, os, sys
HERE = os.path.dirname(os.path.dirname(os.path.abspath(__file__)))
CLAIMED = json.load(open(os.path.join(HERE, 'tools', 'claims.json')))
props = [json.loads(l) for l in open(os.path.join(HERE, 'properties.jsonl'))]
checks, na = [], []
for p in props:
    pid = p['id']
    c = CLAIMED.get(pid)
    if c and c.get('claimed'):
        checks.append({
            'property_id': pid,
            'quick_cmd': './check %s --tier quick' % pid,
            'thorough_cmd': './check %s --tier thorough' % pid,
            'evidence_file': 'evidence/%s.json' % pid,
            'replay_cmd_template': './check --replay {path}',
            'engine': 'pyvc',
            'level_claimed': {'category': 'proof', 'text': c['text'], 'design_ref': 'DESIGN.md section 4 ' + pid},
            'level_note': c['note'],
            'technique': c['technique'],
        })
    else:
        na.append({'property_id': pid, 'reason': (c or {}).get('reason', 'not yet brought under contract in this build; no check is claimed')})
m = {
    'version': 1,
    'setup_cmd': './setup.sh',
    'hooks': {'guard': 'GLOM_VERIF', 'enable': 'none needed: contracts are sidecar files, extraction reads the source; no source commits',
              'baseline_off_cmd': 'cd /repo && /venv/bin/python -m pytest -ra -q -p no:cacheprovider --timeout=900 --continue-on-collection-errors',
              'source_commits': [], 'add_only': True},
    'engines': [{'name': 'pyvc', 'path': 'pyvc/', 'serves_properties': [c['property_id'] for c in checks],
                 'kind_free_text': 'contract-based deductive verification: sidecar contracts + AST->VC symbolic executor over the real glom sources, discharged by z3 and cvc5'}],
    'checks': checks,
    'not_applicable': na,
    'notes': 'Exit codes of ./check: 0 held / 1 VIOLATION / 2 undecided / 3 checker error. Bounded stand-ins are labelled in evidence and never counted as discharged obligations.',
}
json.dump(m, open(os.path.join(HERE, 'MANIFEST.json'), 'w'), indent=1)
try:
    import jsonschema
    jsonschema.validate(m, json.load(open('/root/.vp/MANIFEST.schema.json')))
    print('MANIFEST.json valid; %d checks, %d not_applicable' % (len(checks), len(na)))
except ImportError:
    print('written (jsonschema not available here)')
