#!/usr/bin/env python3
"""tools/mutate.py <Cxx> <module> <old> <new> [only-prefix] : in-memory mutant run (development aid)"""
import sys, importlib, os
sys.path.insert(0, os.path.dirname(os.path.dirname(os.path.abspath(__file__)))); sys.path.insert(0, '/repo')
from pyvc import runner, extract
pid, module, old, new = sys.argv[1:5]
only = sys.argv[5:] or None
mod = importlib.import_module('contracts.' + pid)
src = extract.Repo().text[module]
assert old in src, 'old text not found'
v, res, ts, tz = runner.build_and_prove(mod, overrides={module: src.replace(old, new, 1)}, only=only)
bad = [r for r in res if r['status'] != 'proved']
print('obligations', len(res), 'not proved', len(bad), 'undecided', v.undecided, 'sym %.1fs solve %.1fs' % (ts, tz))
for r in bad[:12]:
    print(' ', r['status'], r['name'])
