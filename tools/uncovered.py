#!/usr/bin/env python3
"""tools/uncovered.py <Cxx> : statements of the functions under contract that no symbolic execution reached"""
import sys, importlib, os
sys.path.insert(0, os.path.dirname(os.path.dirname(os.path.abspath(__file__))))
from pyvc import runner, coverage
pid = sys.argv[1]
mod = importlib.import_module('contracts.' + pid)
v, res, ts, tz = runner.build_and_prove(mod)
for f, miss in coverage.unexecuted(v.repo, v.functions, v.stmt_seen).items():
    print(f)
    for m in miss:
        print('    ', m)
